int nondet_int(void);
int f(int n)
__CPROVER_requires(0 <= n && n <= 10)
__CPROVER_ensures(__CPROVER_return_value == n)
{
    int count = 0;
    while (1)
    __CPROVER_assigns(count)
    __CPROVER_loop_invariant(0 <= count && count <= n)
    __CPROVER_decreases(n - count)
    {
        
        if (count < n) {
            ++count;
        } else {
            break;
        }
    }
    return count;
}
void main(void) { int n; f(n); }
