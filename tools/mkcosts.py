#!/usr/bin/env python3
"""mkcosts.py - record the measured wall time of every unit/variant of the last evidence files in tools/costs.json
(used by ./check only to ORDER the parallel runs, longest first; never to decide anything)."""
import glob, json, os
V = os.path.dirname(os.path.dirname(os.path.abspath(__file__)))
p = os.path.join(V, 'tools', 'costs.json')
try:
    c = json.load(open(p))
except (OSError, ValueError):
    c = {}
for f in glob.glob(os.path.join(V, 'evidence', 'C*.json')):
    for u in json.load(open(f))['coverage'].get('units', []):
        if u.get('wall_s'):
            c['%s/%s' % (u['unit'], u.get('variant') or '')] = round(u['wall_s'])
json.dump(c, open(p, 'w'), indent=0, sort_keys=True)
print(len(c), 'entries')
