#!/usr/bin/env python3
"""Mechanical contract splicer: real /repo source -> annotated copy (DESIGN.md 3.1).

The overlay ONLY INSERTS text, each insertion wrapped in /*VF<*/ ... /*VF>*/ markers.
strip() removes the insertions again; the caller checks strip(overlay) == original
byte-for-byte on every run ("dropped by the extraction: nothing").

Insertion points (found with a small C lexer that blanks comments, strings, char
literals and preprocessor lines):
  * function contract: between the ')' that closes the parameter list of the
    *definition* of <fn> and the '{' that opens its body;
  * loop contract: for the k-th loop keyword (for / while / do, in textual order,
    the closing 'while' of a do-while is not counted) inside <fn>'s body: after
    the ')' closing the loop header (for/while) or after the ')' of the closing
    'while (...)' (do-while);
  * include line: directly before the first function definition that receives a
    contract (so all of the file's own headers are already in scope).
A loop fingerprint (keyword + a substring that must occur in the header) is
checked; a mismatch raises OverlayError -> exit 2 (UNDECIDED), never a violation.
"""
import re
import sys

MARK_L = "/*VF<*/"
MARK_R = "/*VF>*/"
PP = "\x01"   # blanking character for preprocessor lines


class OverlayError(Exception):
    pass


def blank(src):
    """Return src with comments, string/char literals and preprocessor lines replaced
    by spaces (newlines kept) so that offsets are preserved."""
    out = list(src)
    i, n = 0, len(src)
    bol = True  # at beginning of line (only whitespace seen)
    while i < n:
        c = src[i]
        if c == '\n':
            bol = True
            i += 1
            continue
        if bol and c == '#':
            # preprocessor line incl. continuations
            j = i
            while j < n:
                if src[j] == '\n':
                    if j > 0 and src[j - 1] == '\\':
                        j += 1
                        continue
                    break
                # comments inside a pp line may span lines
                if src.startswith('/*', j):
                    k = src.find('*/', j + 2)
                    k = n if k < 0 else k + 2
                    for t in range(j, k):
                        if out[t] != '\n':
                            out[t] = PP
                    j = k
                    continue
                out[j] = PP
                j += 1
            i = j
            continue
        if c in ' \t\r':
            i += 1
            continue
        bol = False
        if src.startswith('/*', i):
            k = src.find('*/', i + 2)
            k = n if k < 0 else k + 2
            for t in range(i, k):
                if out[t] != '\n':
                    out[t] = ' '
            i = k
            continue
        if src.startswith('//', i):
            k = src.find('\n', i)
            k = n if k < 0 else k
            for t in range(i, k):
                out[t] = ' '
            i = k
            continue
        if c == '"' or c == "'":
            q = c
            j = i + 1
            while j < n and src[j] != q:
                if src[j] == '\\':
                    j += 1
                j += 1
            for t in range(i + 1, min(j, n)):
                if out[t] != '\n':
                    out[t] = ' '
            i = j + 1
            continue
        i += 1
    return ''.join(out)


def match_close(b, i, open_c, close_c):
    """b[i] == open_c; return index of matching close_c."""
    depth = 0
    n = len(b)
    while i < n:
        if b[i] == open_c:
            depth += 1
        elif b[i] == close_c:
            depth -= 1
            if depth == 0:
                return i
        i += 1
    raise OverlayError("unbalanced %s%s" % (open_c, close_c))


def find_function(b, fn):
    """Locate the definition of fn in blanked text b.
    Returns (name_pos, rparen_pos, lbrace_pos, rbrace_pos)."""
    for m in re.finditer(r'\b%s\b\s*\(' % re.escape(fn), b):
        # must be at brace depth 0
        depth = b.count('{', 0, m.start()) - b.count('}', 0, m.start())
        if depth != 0:
            continue
        lp = m.end() - 1
        rp = match_close(b, lp, '(', ')')
        k = rp + 1
        while k < len(b) and b[k] in ' \t\r\n':
            k += 1
        if k < len(b) and b[k] == '{':
            rb = match_close(b, k, '{', '}')
            return (m.start(), rp, k, rb)
    raise OverlayError("definition of function '%s' not found" % fn)


def find_loops(b, lbrace, rbrace):
    """Return list of dicts {kw, kwpos, hdr_l, hdr_r, ins} for loops in body, textual order.
    ins = offset *after which* the loop contract text is inserted."""
    loops = []
    do_whiles = set()  # positions of 'while' keywords that close a do-while
    pos = lbrace
    for m in re.finditer(r'\b(for|while|do)\b', b[lbrace:rbrace]):
        kwpos = lbrace + m.start()
        kw = m.group(1)
        if kw == 'while' and kwpos in do_whiles:
            continue
        k = kwpos + len(kw)
        while b[k] in ' \t\r\n':
            k += 1
        if kw in ('for', 'while'):
            if b[k] != '(':
                raise OverlayError("loop header '(' expected after %s at %d" % (kw, kwpos))
            r = match_close(b, k, '(', ')')
            loops.append(dict(kw=kw, kwpos=kwpos, hdr_l=k, hdr_r=r, ins=r + 1))
        else:  # do
            if b[k] != '{':
                raise OverlayError("only 'do {' blocks are supported (at %d)" % kwpos)
            rb = match_close(b, k, '{', '}')
            w = rb + 1
            while b[w] in ' \t\r\n':
                w += 1
            if not b.startswith('while', w):
                raise OverlayError("'while' expected after do-block at %d" % kwpos)
            do_whiles.add(w)
            p = w + 5
            while b[p] in ' \t\r\n':
                p += 1
            r = match_close(b, p, '(', ')')
            loops.append(dict(kw='do', kwpos=kwpos, hdr_l=p, hdr_r=r, ins=kwpos + 2))  # CBMC parses do-while contracts only right after 'do'
    return loops


def overlay(src, fn_contracts, loop_contracts, include_line=None):
    """src: original text.
    fn_contracts: {fn: text}
    loop_contracts: list of (fn, ordinal(1-based), kw, fingerprint_substring, text)
    Returns annotated text."""
    b = blank(src)
    inserts = []  # (offset, text)
    first_def = None
    fns = set(fn_contracts) | set(l[0] for l in loop_contracts)
    locs = {}
    for fn in fns:
        locs[fn] = find_function(b, fn)
    for fn, text in fn_contracts.items():
        name_pos, rp, lb, rb = locs[fn]
        inserts.append((rp + 1, "\n" + text.rstrip() + "\n"))
    for fn in fns:
        name_pos = locs[fn][0]
        # start of the declaration: back up to previous ';' or '}' or start of file
        k = name_pos
        while k > 0 and b[k - 1] not in ';}' + PP:
            k -= 1
        if first_def is None or k < first_def:
            first_def = k
    for (fn, ordinal, kw, fp, text) in loop_contracts:
        name_pos, rp, lb, rb = locs[fn]
        loops = find_loops(b, lb, rb)
        if ordinal < 1 or ordinal > len(loops):
            raise OverlayError("%s: loop #%d requested but function has %d loops" % (fn, ordinal, len(loops)))
        L = loops[ordinal - 1]
        if L['kw'] != kw:
            raise OverlayError("%s: loop #%d is '%s', spec expects '%s'" % (fn, ordinal, L['kw'], kw))
        hdr = re.sub(r'\s+', '', src[L['hdr_l']:L['hdr_r'] + 1])
        if fp and re.sub(r'\s+', '', fp) not in hdr:
            raise OverlayError("%s: loop #%d header %r does not contain fingerprint %r" % (fn, ordinal, hdr, fp))
        inserts.append((L['ins'], "\n" + text.rstrip() + "\n"))
    if include_line and first_def is not None:
        inserts.append((first_def, "\n" + include_line.rstrip() + "\n"))
    inserts.sort(key=lambda t: t[0], reverse=True)
    out = src
    for off, text in inserts:
        out = out[:off] + MARK_L + text + MARK_R + out[off:]
    if strip(out) != src:
        raise OverlayError("round-trip check failed")
    return out


def strip(text):
    return re.sub(re.escape(MARK_L) + r'.*?' + re.escape(MARK_R), '', text, flags=re.S)


def function_header(src, fn):
    """Return the declarator text of fn's definition ('rettype name(params)') from the real source,
    with comments removed - used to emit a body-less declaration carrying the contract."""
    b = blank(src)
    name_pos, rp, lb, rb = find_function(b, fn)
    k = name_pos
    while k > 0 and b[k - 1] not in ';}' + PP:
        k -= 1
    hdr = b[k:rp + 1].replace(PP, ' ')
    # drop blanked preprocessor residue / whitespace runs
    hdr = re.sub(r'\s+', ' ', hdr).strip()
    hdr = re.sub(r'^\s*static\s+', '', hdr)
    return hdr


def list_loops(src, fn):
    b = blank(src)
    name_pos, rp, lb, rb = find_function(b, fn)
    res = []
    for i, L in enumerate(find_loops(b, lb, rb), 1):
        line = src.count('\n', 0, L['kwpos']) + 1
        res.append((i, L['kw'], line, re.sub(r'\s+', ' ', src[L['hdr_l']:L['hdr_r'] + 1])))
    return res


if __name__ == '__main__':
    # utility: list loops of a function
    path, fn = sys.argv[1], sys.argv[2]
    for r in list_loops(open(path).read(), fn):
        print("loop %d %s line %d %s" % r)
