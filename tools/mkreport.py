#!/usr/bin/env python3
"""mkreport.py - regenerate the machine-derived tables of DESIGN.md (between <!-- BEGIN GENERATED x --> markers):
   units : every unit under contract, its status, what it serves, last evidence numbers
   seeds : every seeded (red-team) change and which check caught it (from seeded/*/meta.json, written by seed_eval.py)
"""
import glob
import json
import os
import re
import sys

HERE = os.path.dirname(os.path.abspath(__file__))
VERIF = os.path.dirname(HERE)
sys.path.insert(0, HERE)
import prove  # noqa: E402


def units_table():
    ev = {}
    for f in glob.glob(os.path.join(VERIF, 'evidence', '*.json')):
        try:
            e = json.load(open(f))
        except Exception:
            continue
        for u in e['coverage'].get('units', []):
            ev.setdefault(u['unit'], {})[u.get('variant')] = u
    rows = ['| unit | function (file) | serves | instrumentation | status | obligations (quick) | solver s |', '|---|---|---|---|---|---|---|']
    for fn in sorted(os.listdir(prove.CONTRACT_DIR)):
        if not fn.endswith('.spec'):
            continue
        sp = prove.parse_spec(os.path.join(prove.CONTRACT_DIR, fn))
        if not sp['harness'] or not sp['enforce']:
            continue
        st = sp.get('status', 'active')
        e = ev.get(sp['unit'], {})
        obl = sum(v.get('obligations') or 0 for v in e.values())
        sec = sum(v.get('solver_s') or 0 for v in e.values())
        mode = sp['mode'] + (' unwind=%s' % sp['unwind'] if sp['mode'] == 'bounded' else '')
        stat = 'active (%s%s)' % (mode, ', %d variants' % len(sp['variants']) if sp['variants'] else '') if st == 'active' else 'NOT RUN: ' + (sp.get('status_note', '')[:110])
        rows.append('| %s | `%s` (%s) | %s | %s, %d loop contracts, %d callees replaced | %s | %s | %s |' % (
            sp['unit'], sp['enforce'], ', '.join(os.path.basename(s) for s in sp['sources']), ' '.join(sp['serves']), sp['instrument'],
            len(sp['loops']), len(sp['replace']), stat, obl or '-', int(sec) if sec else '-'))
    return '\n'.join(rows)


def seeds_table():
    rows = ['| seed | property | files changed | what it needs | verdict of the machinery | failing unit : obligations |', '|---|---|---|---|---|---|']
    tot = det = und = 0
    for d in sorted(glob.glob(os.path.join(VERIF, 'seeded', '*'))):
        mp = os.path.join(d, 'meta.json')
        if not os.path.exists(mp):
            continue
        m = json.load(open(mp))
        db = m.get('detected_by') or {}
        v = (db.get('verdict') or 'not evaluated')
        tot += 1
        det += v.startswith('detected')
        und += v.startswith('undecided')
        units = '; '.join('%s: %s' % (u['unit'] + (('/' + u['variant']) if u.get('variant') else ''), ', '.join(f['name'].split('.', 1)[-1] for f in u['failed'][:3])) for u in db.get('units', []))
        needs = m.get('needs_short') or ''
        if not needs:
            rd = os.path.join(d, 'README.md')
            if os.path.exists(rd):
                txt = open(rd).read()
                mm = re.search(r'(?i)(needs?[^\n]{0,40}manifest[^\n]*|trigger[^\n]*|what it needs[^\n]*)\n+([^\n]+)', txt)
                needs = (mm.group(2) if mm else txt.strip().split('\n')[0])[:140]
        files = ', '.join(sorted(set(re.sub(r'^[sdcz](?=[a-z])', '?', os.path.basename(f)) for f in m.get('files_changed', []))))
        rows.append('| %s | %s | %s | %s | %s | %s |' % (m.get('seed_id'), m.get('property'), files[:70], needs.replace('|', '/'), v, units[:160] or ('undecided: ' + '; '.join(u['unit'] for u in db.get('undecided', [])) if db.get('undecided') else '-')))
    rows.append('')
    rows.append('Totals: %d seeded changes, %d detected (exit 1 with a failing named obligation), %d undecided (exit 2), %d missed.' % (tot, det, und, tot - det - und))
    return '\n'.join(rows)


def main():
    p = os.path.join(VERIF, 'DESIGN.md')
    t = open(p).read()
    for name, fn in (('units', units_table), ('seeds', seeds_table)):
        a, b = '<!-- BEGIN GENERATED %s -->' % name, '<!-- END GENERATED %s -->' % name
        if a in t and b in t:
            t = t[:t.index(a) + len(a)] + '\n' + fn() + '\n' + t[t.index(b):]
    open(p, 'w').write(t)
    print('DESIGN.md tables regenerated')


if __name__ == '__main__':
    main()
