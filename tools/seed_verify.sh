#!/bin/bash
# seed_verify.sh <worktree> <k> <seed-id> <property>
# Confirms a seeded change delivered by a red-team sub-agent in <worktree>/MUT/<k>/ :
#   (1) demo passes on clean HEAD, (2) patch applies, builds, all ctest tests pass, (3) demo fails with the patch.
# On success copies patch.diff, the demonstration and a meta.json to /verif/seeded/<seed-id>/ .
# The worktree is left clean and rebuilt at HEAD.
set -u
wt=$1; k=$2; id=$3; prop=$4
mut=$wt/MUT/$k
log=$(mktemp)
cd "$wt" || exit 2
git checkout -- . >/dev/null 2>&1
[ -d _build ] || cmake -G Ninja -S . -B _build -DCMAKE_BUILD_TYPE=RelWithDebInfo -DCMAKE_C_FLAGS=-Wno-error -DTPL_BLAS_LIBRARIES=/usr/lib/x86_64-linux-gnu/libopenblas.so -Denable_fortran=OFF >/dev/null
cmake --build _build -j8 >/dev/null 2>&1 || { echo "$id: clean build failed"; exit 2; }
( sh "$mut/run.sh" ) >"$log.clean" 2>&1; rc_clean=$?
git apply "$mut/patch.diff" || { echo "$id: patch does not apply"; exit 2; }
cmake --build _build -j8 >"$log.build" 2>&1 || { echo "$id: patched build failed"; git checkout -- .; exit 2; }
ctest --test-dir _build -j8 --timeout 900 >"$log.ctest" 2>&1; rc_ctest=$?
tests=$(grep -E "tests passed|tests failed" "$log.ctest" | tail -1)
( sh "$mut/run.sh" ) >"$log.mut" 2>&1; rc_mut=$?
git checkout -- . >/dev/null 2>&1
cmake --build _build -j8 >/dev/null 2>&1
echo "$id: demo(clean)=$rc_clean ctest(patched)=$rc_ctest [$tests] demo(patched)=$rc_mut"
if [ $rc_clean -eq 0 ] && [ $rc_ctest -eq 0 ] && [ $rc_mut -ne 0 ]; then
  d=/verif/seeded/$id
  mkdir -p "$d"
  cp "$mut/patch.diff" "$d/patch.diff"
  for f in "$mut"/*; do case "$(basename "$f")" in demo|demo.bin|*.o|patch.diff) ;; *) [ -f "$f" ] && [ "$(stat -c %s "$f")" -lt 200000 ] && cp "$f" "$d/";; esac; done
  tail -c 1500 "$log.clean" > "$d/demo_clean.txt"; tail -c 1500 "$log.mut" > "$d/demo_patched.txt"
  python3 - "$d" "$id" "$prop" "$rc_clean" "$rc_mut" "$tests" <<'E'
import json, sys, os, re
d, sid, prop, rc_clean, rc_mut, tests = sys.argv[1:7]
readme = open(os.path.join(d, 'README.md')).read() if os.path.exists(os.path.join(d, 'README.md')) else ''
files = sorted(set(re.findall(r'^\+\+\+ b/(\S+)', open(os.path.join(d, 'patch.diff')).read(), flags=re.M)))
meta = dict(seed_id=sid, property=prop, files_changed=files,
            needs_to_manifest='see README.md (written by the independent sub-agent that produced the change)',
            confirmed=dict(demo_exit_clean=int(rc_clean), demo_exit_patched=int(rc_mut), ctest_with_patch=tests.strip(),
                           how='tools/seed_verify.sh: scratch worktree of /repo HEAD, patch applied, cmake --build, ctest -j8 (all pass), run.sh (demo) non-zero; clean tree: run.sh exit 0'),
            detected_by=None)
if os.path.exists(os.path.join(d, 'meta.json')):
    old = json.load(open(os.path.join(d, 'meta.json')))
    meta['detected_by'] = old.get('detected_by')
    meta['needs_to_manifest'] = old.get('needs_to_manifest', meta['needs_to_manifest'])
json.dump(meta, open(os.path.join(d, 'meta.json'), 'w'), indent=1)
E
  echo "$id: KEPT in /verif/seeded/$id"
else
  echo "$id: NOT confirmed"; tail -5 "$log.mut"
fi
rm -f "$log" "$log".*
