/* canary for the CBMC 6.11 havoc_slice behaviour that tools/prove.py:fix_upto() works around.
 * Expected (checked by tools/canary.py): with a NON-constant byte size S = n*sizeof(T):
 *   havoc_slice(p, S)     leaves element n-1 untouched   (the bug;   assertion "bug" must be SUCCESS or FAILURE - informational)
 *   havoc_slice(p, S + 1) havocs elements 0..n-1         (assertions "w_first", "w_last" must FAIL = element can change)
 *   havoc_slice(p, S + 1) does not touch element n       (assertion "w_beyond" must SUCCEED)
 * If a future CBMC changes this, the canary fails and every check exits 2 (undecided) until fix_upto() is revisited. */
#include <stdlib.h>
int nondet_int(void);
int main(void)
{
    ELT *p = malloc(16 * sizeof(ELT));
    __CPROVER_assume(p != 0);
    int n = nondet_int();
    __CPROVER_assume(1 <= n && n <= 12);
    for (int k = 0; k < 16; k++) p[k] = 7;
#ifdef WIDEN
    __CPROVER_havoc_slice(p, n * sizeof(ELT) + 1);
    __CPROVER_assert(!(n == 5 && p[0] != 7), "w_first");
    __CPROVER_assert(!(n == 5 && p[4] != 7), "w_last");
    __CPROVER_assert(!(n == 5 && p[5] != 7), "w_beyond");
#else
    __CPROVER_havoc_slice(p, n * sizeof(ELT));
    __CPROVER_assert(!(n == 5 && p[4] != 7), "bug");
#endif
    return 0;
}
