#!/usr/bin/env python3
"""cex.py - violation recording and counterexample replay (DESIGN.md 3.4).

record_violation(): for a failed obligation, (1) re-run cbmc on the rebuilt unit for that one
property with --trace and store the verifier's output in the replay file; (2) if the unit has a
witness harness (@@witness in the spec), search for a *concrete* failing input on the real function
body (no contracts, loops unwound, small capacity), generate a native C program that feeds exactly
those inputs to the real function compiled by gcc from /repo's working tree, run it, and report the
violation as confirmed only if the native run fails too.  Otherwise the VIOLATION line ends with
`no-failing-input-found`.
"""
import json
import os
import re
import shutil
import subprocess
import sys
import tempfile

HERE = os.path.dirname(os.path.abspath(__file__))
VERIF = os.path.dirname(HERE)
sys.path.insert(0, HERE)
import prove  # noqa: E402

REPLAY = os.path.join(VERIF, 'replay')


def safe(s):
    return re.sub(r'[^A-Za-z0-9_.-]+', '_', s or 'x')[:80]


def verifier_trace(spec, tier, variant, obligation, timeout=600):
    """Rebuild the unit and ask cbmc for a trace of one property. Returns text (possibly truncated)."""
    workdir = tempfile.mkdtemp(prefix='vf_cex_', dir=os.environ.get('VF_SCRATCH', '/tmp'))
    try:
        try:
            vdefs = ()
            if variant:
                for v in spec['variants']:
                    if v[0] == variant:
                        vdefs = v[1]
            b = prove.build_unit(spec, tier, workdir, variant_defs=vdefs)
        except prove.Undecided as e:
            return 'rebuild failed: %s' % e
        cmd = ['cbmc', '--object-bits', str(spec['object_bits'] or 12), '--slice-formula', '--trace',
               '--property', obligation] + [f for f in spec['cbmc_flags']] + [b['gb']]
        if spec['mode'] == 'bounded':
            cmd += ['--unwind', str(spec['unwind'])]
        rc, out, err, w = prove.run(cmd, timeout, spec['memlimit_gb'] or 10, cwd=workdir)
        if rc is None:
            return 'cbmc --trace timed out after %ds' % timeout
        i = out.find('Trace for')
        txt = out[i:] if i >= 0 else out[-20000:]
        # drop DFCC-internal bookkeeping steps to keep the file readable
        keep = []
        skip = False
        for block in txt.split('\n\n'):
            if '__CPROVER_contracts_' in block.split('\n')[0] if block else False:
                continue
            keep.append(block)
        txt = '\n\n'.join(keep)
        return txt[-200000:]
    finally:
        shutil.rmtree(workdir, ignore_errors=True)


def record_violation(prop, r, f, spec, tier, full=True):
    """Write replay file; return (path, confirmed_by_native_replay)."""
    d = os.path.join(REPLAY, prop)
    os.makedirs(d, exist_ok=True)
    base = '%s__%s%s' % (safe(r['unit']), safe(f.get('name')), ('__' + safe(r.get('variant'))) if r.get('variant') else '')
    path = os.path.join(d, base + '.json')
    rec = dict(property=prop, unit=r['unit'], variant=r.get('variant'), tier=tier,
               failed_obligation=f.get('name'), description=f.get('description'), clause=f.get('clause'),
               location=dict(function=f.get('function'), overlay_file=f.get('file'), overlay_line=f.get('line')),
               function_under_contract=spec['enforce'] if spec else None,
               native_replay=None, verifier_output=None)
    confirmed = False
    if not full:
        rec['verifier_output'] = 'FAILURE reported by cbmc for this obligation (replay budget of this run used by earlier obligations of the same unit: VF_REPLAY_BUDGET)'
    elif spec is not None and f.get('name') and r['unit'] != 'statics':
        try:
            rec['verifier_output'] = verifier_trace(spec, tier, r.get('variant'), f['name'])
        except Exception as e:  # never let trace extraction mask the violation itself
            rec['verifier_output'] = 'trace extraction failed: %r' % e
        try:
            import witness
            w = witness.try_witness(prop, spec, r, f, d, base)
            if w:
                rec['native_replay'] = w
                confirmed = bool(w.get('confirmed'))
        except ImportError:
            pass
        except Exception as e:
            rec['native_replay'] = dict(confirmed=False, error=repr(e))
    else:
        rec['verifier_output'] = f.get('description')
    json.dump(rec, open(path, 'w'), indent=1)
    return path, confirmed


def replay(path):
    rec = json.load(open(path))
    print('property   :', rec['property'])
    print('unit       :', rec['unit'], rec.get('variant') or '')
    print('obligation :', rec['failed_obligation'])
    print('clause     :', rec.get('clause'))
    nr = rec.get('native_replay')
    if nr and nr.get('source'):
        import witness
        return witness.rerun(nr)
    print('no native replay recorded (no-failing-input-found); verifier output follows')
    print((rec.get('verifier_output') or '')[-6000:])
    return 1
