#!/usr/bin/env python3
"""prove.py - build -> instrument (DFCC) -> cbmc -> parse, for one unit (DESIGN.md 3.3).

A *unit* is described by /verif/contracts/<unit>.spec. See contracts/README.md for the format.
Exit status of run_unit(): a dict; the CLI (../check) turns it into exit codes.
"""
import hashlib
import json
import os
import re
import shutil
import subprocess
import sys
import tempfile
import time

HERE = os.path.dirname(os.path.abspath(__file__))
VERIF = os.path.dirname(HERE)
REPO = os.environ.get('VF_REPO', '/repo')
sys.path.insert(0, HERE)
import overlay as ov  # noqa: E402

CONTRACT_DIR = os.path.join(VERIF, 'contracts')
HARNESS_DIR = os.path.join(VERIF, 'harness')


class Undecided(Exception):
    pass


# ---------------------------------------------------------------- spec parsing
def parse_spec(path):
    """Return dict with keys: unit, serves, sources, extra_sources, enforce, replace, harness,
    defines{tier:[..]}, cbmc_flags, timeout{tier}, mode, contracts{fn:{text,file}},
    replace_extra{fn:text}, loops[(fn,ord,kw,fp,text)], externals{fn:{decl,text}}, assumptions[], mutants[]"""
    spec = dict(unit=None, serves=[], sources=[], extra_sources=[], enforce=None, replace=[],
                harness=None, defines={}, cbmc_flags=[], timeout={}, mode='proof', unwind=None,
                contracts={}, replace_extra={}, loops=[], externals={}, assumptions=[], mutants=[],
                allow_nobody=[], includes=[], covers=[], variants=[], not_decided=[], path=path, goto_flags=[],
                memlimit_gb=None, object_bits=None, instrument='dfcc', pins={}, status='active', pre_unwind=None, tool_artefacts=[],
                quick_variants={})
    cur = None
    buf = []

    def flush():
        nonlocal cur, buf
        if cur is None:
            return
        text = '\n'.join(buf).strip('\n')
        kind = cur[0]
        if kind == 'contract':
            spec['contracts'][cur[1]] = dict(text=text, file=cur[2])
        elif kind == 'replace_extra':
            spec['replace_extra'][cur[1]] = text
        elif kind == 'loop':
            spec['loops'].append((cur[1], cur[2], cur[3], cur[4], text))
        elif kind == 'external':
            lines = text.split('\n')
            decl = lines[0].strip()
            if not decl.startswith('decl:'):
                raise Undecided('%s: @@external %s needs a first line "decl: <prototype>"' % (path, cur[1]))
            spec['externals'][cur[1]] = dict(decl=decl[5:].strip(), text='\n'.join(lines[1:]))
        cur, buf = None, []

    for raw in open(path):
        line = raw.rstrip('\n')
        if line.startswith('@@'):
            flush()
            parts = line[2:].split(None, 1)
            key = parts[0]
            arg = parts[1].strip() if len(parts) > 1 else ''
            if key == 'unit':
                spec['unit'] = arg
            elif key == 'serves':
                spec['serves'] = arg.split()
            elif key == 'sources':
                spec['sources'] += arg.split()
            elif key == 'extra_sources':
                spec['extra_sources'] += arg.split()
            elif key == 'enforce':
                spec['enforce'] = arg
            elif key == 'replace':
                for tok in arg.split():
                    if '@' in tok:
                        nm, pin = tok.split('@', 1)
                        spec['pins'][nm] = pin
                        tok = nm
                    spec['replace'].append(tok)
            elif key == 'harness':
                spec['harness'] = arg
            elif key == 'defines':
                # "@@defines quick: A=1 B=2" / "@@defines all: X"
                tier, rest = arg.split(':', 1)
                spec['defines'].setdefault(tier.strip(), []).extend(rest.split())
            elif key == 'cbmc_flags':
                spec['cbmc_flags'] += arg.split()
            elif key == 'goto_flags':
                spec['goto_flags'] += arg.split()
            elif key == 'timeout':
                for kv in arg.split():
                    k, v = kv.split('=')
                    spec['timeout'][k] = int(v)
            elif key == 'memlimit_gb':
                spec['memlimit_gb'] = int(arg)
            elif key == 'instrument':
                if arg not in ('dfcc', 'legacy'):
                    raise Undecided('%s: bad @@instrument %r' % (path, arg))
                spec['instrument'] = arg
            elif key == 'status':
                # "@@status wip <why>": unit is under construction: never run by a property check, never counted
                spec['status'] = arg.split()[0]
                spec['status_note'] = arg
            elif key == 'tool_artefact':
                # "@@tool_artefact truncation-check": a FAILURE of cbmc's own legacy loop-instrumentation self check
                # "Check that loop instrumentation was not truncated" is a known artefact on `while (1) {.. break;}` loops
                # (tools/canary_truncation.c: it fails on a trivially correct program); not a property of the code
                spec['tool_artefacts'].append(arg.split()[0])
            elif key == 'pre_unwind':
                # "@@pre_unwind f.24:6": legacy units only - unwind these loops (with unwinding assertions) BEFORE the
                # loop-contract pass (for a loop that legacy --apply-loop-contracts cannot take, e.g. a nested do-while)
                spec['pre_unwind'] = arg.strip()
            elif key == 'cex':
                # "@@cex unwind=5 NCAP=2 NZCAP=3": bound and capacity defines of the counterexample SEARCH (tools/witness.py)
                for kv in arg.split():
                    k, v = kv.split('=')
                    if k == 'unwind':
                        spec['cex_unwind'] = int(v)
                    else:
                        spec.setdefault('cex_defines', []).append(kv)
            elif key == 'object_bits':
                spec['object_bits'] = int(arg)
            elif key == 'mode':
                m = re.match(r'bounded\s+unwind=(\d+)', arg)
                if m:
                    spec['mode'] = 'bounded'
                    spec['unwind'] = int(m.group(1))
                elif arg == 'proof':
                    spec['mode'] = 'proof'
                else:
                    raise Undecided('%s: bad @@mode %r' % (path, arg))
            elif key == 'contract':
                a = arg.split()
                f = None
                for x in a[1:]:
                    if x.startswith('file='):
                        f = x[5:]
                cur = ('contract', a[0], f)
            elif key == 'replace_extra':
                cur = ('replace_extra', arg.split()[0])
            elif key == 'loop':
                m = re.match(r'(\w+)\s+(\d+)\s+(for|while|do)\s*(?:"(.*)")?\s*$', arg)
                if not m:
                    raise Undecided('%s: bad @@loop line %r' % (path, arg))
                cur = ('loop', m.group(1), int(m.group(2)), m.group(3), m.group(4) or '')
            elif key == 'external':
                cur = ('external', arg.split()[0])
            elif key == 'assumption':
                spec['assumptions'].append(arg)
            elif key == 'not_decided':
                spec['not_decided'].append(arg)
            elif key == 'mutant':
                name, sed = arg.split(':', 1)
                spec['mutants'].append((name.strip(), sed.strip()))
            elif key == 'cover':
                name, expr = arg.split(':', 1)
                spec['covers'].append((name.strip(), expr.strip()))
            elif key == 'allow_nobody':
                spec['allow_nobody'] += arg.split()
            elif key == 'variant':
                # "@@variant name: DEF1 DEF2=3" : extra defines -> the unit is run once per variant
                name, rest = arg.split(':', 1)
                spec['variants'].append((name.strip(), rest.split()))
            elif key == 'quick_variants':
                # "@@quick_variants C19: GEN U0" : at QUICK tier, for property C19 only, run just these variants of the unit
                # ("none": the unit is not run for that property at quick tier). The thorough tier always runs every variant.
                # Used where a unit's variants repeat the same memory-safety / ledger obligations and differ only in
                # facts that belong to another property; what is left out is listed in the evidence.
                pr, rest = arg.split(':', 1)
                spec['quick_variants'][pr.strip()] = rest.split()
            elif key == 'end':
                pass
            else:
                raise Undecided('%s: unknown directive @@%s' % (path, key))
        else:
            if cur is not None:
                buf.append(line)
    flush()
    if not spec['unit']:
        raise Undecided('%s: missing @@unit' % path)
    return spec


_registry = None


def registry():
    """function -> ('repo', file, text, replace_extra) | ('external', decl, text)"""
    global _registry
    if _registry is not None:
        return _registry
    reg = {}
    specs = []
    for fn in sorted(os.listdir(CONTRACT_DIR)):
        if fn.endswith('.spec'):
            specs.append((fn, parse_spec(os.path.join(CONTRACT_DIR, fn))))
    enforced_somewhere = set(sp['enforce'] for _, sp in specs if sp['enforce'] and sp['harness'])
    for fn, sp in specs:
        for f, c in sp['contracts'].items():
            src = c['file'] or (sp['sources'][0] if sp['sources'] else None)
            ent = dict(kind='repo', file=src, text=c['text'], extra=sp['replace_extra'].get(f, ''), spec=fn,
                       proved=(f in enforced_somewhere), owner_enforces=(sp['enforce'] == f))
            # precedence: the spec of the unit that ENFORCES f owns f's contract; otherwise first one wins
            if f not in reg or (ent['owner_enforces'] and not reg[f].get('owner_enforces')):
                reg[f] = ent
        if not sp['harness']:
            # @@external sections are exported only from harness-less collections (externals.spec, assumed.spec);
            # an @@external inside a unit's own spec is private to that unit
            for f, c in sp['externals'].items():
                if f not in reg:
                    reg[f] = dict(kind='external', decl=c['decl'], text=c['text'], extra='', spec=fn, proved=False)
    _registry = reg
    return reg


def pinned(fn, specname):
    """contract of fn taken from a named spec file ('name@assumed' in @@replace): used while a proved contract
    is not yet call-site compatible; reported as an assumed contract in evidence"""
    sp = parse_spec(os.path.join(CONTRACT_DIR, specname + '.spec'))
    if fn in sp['contracts']:
        c = sp['contracts'][fn]
        return dict(kind='repo', file=c['file'] or (sp['sources'][0] if sp['sources'] else None), text=c['text'],
                    extra=sp['replace_extra'].get(fn, ''))
    if fn in sp['externals']:
        c = sp['externals'][fn]
        return dict(kind='external', decl=c['decl'], text=c['text'], extra='')
    raise Undecided('pinned contract %s@%s not found' % (fn, specname))


# ---------------------------------------------------------------- helpers
def run(cmd, timeout, memlimit_gb, cwd=None, log=None):
    """Run cmd under timeout and ulimit -v. Returns (rc, stdout, stderr, wall). rc=None on timeout."""
    pre = 'ulimit -v %d; ' % (memlimit_gb * 1024 * 1024)
    t0 = time.time()
    p = subprocess.Popen(['bash', '-c', pre + 'exec "$@"', 'x'] + cmd, cwd=cwd,
                         stdout=subprocess.PIPE, stderr=subprocess.PIPE, text=True,
                         start_new_session=True)
    try:
        out, err = p.communicate(timeout=timeout)
        rc = p.returncode
    except subprocess.TimeoutExpired:
        try:
            os.killpg(p.pid, 9)
        except Exception:
            pass
        out, err = p.communicate()
        rc = None
    return rc, out, err, time.time() - t0


def tier_defines(spec, tier):
    return spec['defines'].get('all', []) + spec['defines'].get(tier, [])


def repo_file(rel, root=None):
    return os.path.join(root or REPO, rel)


def subst_capsz(text, enforced):
    out = []
    i = 0
    while True:
        j = text.find('CAPSZ(', i)
        if j < 0:
            out.append(text[i:])
            break
        out.append(text[i:j])
        k = j + len('CAPSZ(')
        depth, args, cur = 1, [], ''
        while depth:
            ch = text[k]
            if ch == '(':
                depth += 1
            elif ch == ')':
                depth -= 1
                if depth == 0:
                    break
            if ch == ',' and depth == 1:
                args.append(cur)
                cur = ''
            else:
                cur += ch
            k += 1
        args.append(cur)
        if len(args) != 2:
            raise Undecided('CAPSZ needs two arguments: %r' % text[j:k + 1])
        out.append('(%s)' % (args[1].strip() if enforced else args[0].strip()))
        i = k + 1
    return ''.join(out)



# ---------------------------------------------------------------- CBMC 6.11 havoc_slice workaround
_CONST_ID = re.compile(r'[A-Z][A-Z0-9_]*$')


def _is_symbolic_size(expr):
    e = re.sub(r'sizeof\s*\([^()]*\)', '1', expr)
    e = re.sub(r'sizeof\s*\*?\s*\w+', '1', e)
    return any(not _CONST_ID.match(i) for i in re.findall(r'[A-Za-z_]\w*', e))


def _split_top(s, sep):
    parts, depth, cur = [], 0, ''
    for ch in s:
        if ch in '([{':
            depth += 1
        elif ch in ')]}':
            depth -= 1
        if ch == sep and depth == 0:
            parts.append(cur)
            cur = ''
        else:
            cur += ch
    parts.append(cur)
    return parts


def _split_binary_star(s):
    """split at top-level BINARY '*' (a '*' that follows an operand); a unary '*' (dereference) stays in its factor"""
    parts, depth, cur = [], 0, ''
    for ch in s:
        if ch in '([{':
            depth += 1
        elif ch in ')]}':
            depth -= 1
        prev = cur.rstrip()[-1:] if cur.strip() else ''
        if ch == '*' and depth == 0 and prev and (prev.isalnum() or prev in '_)]'):
            parts.append(cur)
            cur = ''
        else:
            cur += ch
    parts.append(cur)
    return parts


def _last_element_target(ptr, size):
    """for object_upto(ptr, size) with a non-constant size: the typed lvalue of the last element and its guard"""
    factors = [f.strip() for f in _split_binary_star(size)]
    T, rest = None, []
    for f in factors:
        m = re.fullmatch(r'sizeof\s*\((.*)\)', f, flags=re.S)
        if m and T is None:
            T = m.group(1).strip()
        else:
            rest.append(f)
    if T is None:
        T, cnt = 'char', size.strip()
    else:
        cnt = ' * '.join('(%s)' % f for f in rest) if rest else '1'
    return '(%s) > 0' % cnt, '((__typeof__(%s) *)(%s))[(%s) - 1]' % (T, ptr.strip(), cnt)


def fix_upto(text):
    """CBMC 6.11 under-havoc workaround (measured on the real dgsequ unit, see DESIGN.md 2 and tools/canary_havoc.c):
    when the byte size S of `__CPROVER_object_upto(p, S)` is not a compile-time constant, the HAVOC performed for
    that target (loop assigns at the loop head, assigns of a replaced callee) leaves the last element of the slice
    untouched, so the proof silently covers only states in which that element already has its final value.
    A typed lvalue target is havocked exactly. For every such target this adds, in the same assigns clause, the
    conditional group `(count) > 0: ((T *)p)[count - 1]`, i.e. the last element again as an lvalue. The frame is
    unchanged (the element is inside the slice already); only the havoc becomes complete."""
    out, i = [], 0
    pat = re.compile(r'__CPROVER_assigns\s*\(')
    upto = re.compile(r'^\s*(?:__CPROVER_object_upto|UPTO)\s*\((.*)\)\s*$', flags=re.S)
    while True:
        m = pat.search(text, i)
        if not m:
            out.append(text[i:])
            break
        lp = m.end() - 1
        depth, j = 0, lp
        while True:
            if text[j] == '(':
                depth += 1
            elif text[j] == ')':
                depth -= 1
                if depth == 0:
                    break
            j += 1
        body = text[lp + 1:j]
        groups = _split_top(body, ';')
        extra = []
        for g in groups:
            parts = _split_top(g, ':')
            cond, targets = (parts[0].strip(), ':'.join(parts[1:])) if len(parts) > 1 else (None, g)
            for tg in _split_top(targets, ','):
                mu = upto.match(tg)
                if not mu:
                    continue
                args = _split_top(mu.group(1), ',')
                if len(args) != 2 or not _is_symbolic_size(args[1]):
                    continue
                guard, lv = _last_element_target(args[0], args[1])
                extra.append('%s%s: %s' % (('(%s) && ' % cond) if cond else '', guard, lv))
        if extra and '/*VF-last*/' not in body:
            body = body.rstrip().rstrip(';') + '; /*VF-last*/ ' + '; '.join(extra)
        out.append(text[i:lp + 1] + body + ')')
        i = j + 1
    return ''.join(out)

# ---------------------------------------------------------------- main pipeline
def build_unit(spec, tier, workdir, repo_root=None, variant_defs=(), extra_defs=(), cex_mode=False, drop_loops=False, unwind_all=None):
    """Overlay + goto-cc + goto-instrument. Returns dict(gb=path, cmds=[...], inserted=..., sources=[...])."""
    reg = registry()
    root = repo_root or REPO
    srcdir = os.path.join(workdir, 'src')
    os.makedirs(srcdir, exist_ok=True)
    # headers
    for d in ('SRC',):
        for h in os.listdir(os.path.join(root, d)):
            if h.endswith('.h'):
                shutil.copy(os.path.join(root, d, h), srcdir)
    shutil.copy(os.path.join(CONTRACT_DIR, 'vf_prelude.h'), srcdir)
    for h in os.listdir(CONTRACT_DIR):
        if h.endswith('.h') and h != 'vf_prelude.h':
            shutil.copy(os.path.join(CONTRACT_DIR, h), srcdir)

    enforce = spec['enforce']
    replace = list(spec['replace'])
    # which functions get their contract spliced onto a definition in a compiled source
    fn_by_file = {}  # rel -> {fn:text}
    loops_by_file = {}
    decl_lines = []
    srcs_text = {rel: open(repo_file(rel, root)).read() for rel in spec['sources']}
    blanked = {rel: ov.blank(t) for rel, t in srcs_text.items()}

    def defined_in(fn):
        for rel, b in blanked.items():
            try:
                ov.find_function(b, fn)
                return rel
            except ov.OverlayError:
                continue
        return None

    wanted = ([enforce] if enforce else []) + replace
    for fn in wanted:
        # contract text: own spec first, then registry
        if fn in spec['contracts']:
            text = spec['contracts'][fn]['text']
            extra = spec['replace_extra'].get(fn, '')
            kind, cfile, decl = 'repo', spec['contracts'][fn]['file'], None
        elif fn in spec['externals']:
            text, extra, kind, cfile, decl = spec['externals'][fn]['text'], '', 'external', None, spec['externals'][fn]['decl']
        elif fn in spec['pins']:
            r = pinned(fn, spec['pins'][fn])
            text, extra, kind = r['text'], r['extra'], r['kind']
            cfile = r.get('file')
            decl = r.get('decl')
        elif fn in reg:
            r = reg[fn]
            text, extra, kind = r['text'], r['extra'], r['kind']
            cfile = r.get('file')
            decl = r.get('decl')
        else:
            raise Undecided('no contract found for %s' % fn)
        if fn != enforce and extra:
            text = text + '\n' + extra
        # CAPSZ(n, cap): size of a caller-provided array. In the contract of the function under proof the
        # object gets the constant capacity `cap` (symbolic-size heap objects are intractable, DESIGN 2); at a
        # replaced call site the caller must provide the logical size `n`.
        text = fix_upto(subst_capsz(text, enforced=(fn == enforce)))
        if fn == enforce:
            for (cname, cexpr) in spec['covers']:
                text += '\n__CPROVER_ensures(!(%s)) /*VF_COVER %s*/' % (cexpr, cname)
        rel = defined_in(fn)
        if rel is not None:
            fn_by_file.setdefault(rel, {})[fn] = text
        else:
            if fn == enforce:
                raise Undecided('function under contract %s not found in %s' % (fn, spec['sources']))
            if kind == 'external':
                hdr = decl
            else:
                if not cfile:
                    raise Undecided('contract for %s has no file= attribute' % fn)
                try:
                    hdr = ov.function_header(open(repo_file(cfile, root)).read(), fn)
                except (ov.OverlayError, OSError) as e:
                    raise Undecided('cannot extract prototype of %s from %s: %s' % (fn, cfile, e))
            decl_lines.append('%s\n%s\n;\n' % (hdr.rstrip(';'), text))
    for (fn, ordn, kw, fp, text) in ([] if drop_loops else spec['loops']):
        rel = defined_in(fn)
        if rel is None:
            raise Undecided('loop contract for %s: function not found in sources' % fn)
        loops_by_file.setdefault(rel, []).append((fn, ordn, kw, fp, fix_upto(text)))

    with open(os.path.join(srcdir, 'vf_replaced.h'), 'w') as f:
        f.write('/* generated: body-less declarations carrying the contracts of replaced callees */\n')
        f.write('#ifndef VF_REPLACED_H\n#define VF_REPLACED_H\n')
        f.write('\n'.join(decl_lines))
        f.write('\n#endif\n')

    inserted = {}
    linemap = {}
    out_srcs = []
    for rel in spec['sources']:
        text = srcs_text[rel]
        fc = fn_by_file.get(rel, {})
        lc = loops_by_file.get(rel, [])
        try:
            if fc or lc:
                new = ov.overlay(text, fc, lc, include_line='#include "vf_prelude.h"\n#include "vf_replaced.h"')
            else:
                new = text
        except ov.OverlayError as e:
            raise Undecided('overlay of %s failed: %s' % (rel, e))
        if ov.strip(new) != text:
            raise Undecided('overlay round-trip mismatch for %s' % rel)
        dst = os.path.join(srcdir, os.path.basename(rel))
        open(dst, 'w').write(new)
        inside = False
        for ln, l in enumerate(new.split('\n'), 1):
            if ov.MARK_L in l:
                inside = True
                linemap[(os.path.basename(rel), ln)] = 'loop header: ' + l.split(ov.MARK_L)[0].strip()
                continue
            if ov.MARK_R in l:
                inside = False
                continue
            if inside and l.strip():
                linemap[(os.path.basename(rel), ln)] = l.strip()
        inserted[rel] = dict(inserted_bytes=len(new) - len(text),
                             sha256_original=hashlib.sha256(text.encode()).hexdigest())
        out_srcs.append(dst)
    for rel in spec['extra_sources']:
        dst = os.path.join(srcdir, os.path.basename(rel))
        shutil.copy(repo_file(rel, root), dst)
        out_srcs.append(dst)
    # harness + support
    hsrc = os.path.join(VERIF, spec['harness'])
    hdst = os.path.join(srcdir, 'vf_harness_' + os.path.basename(hsrc))
    shutil.copy(hsrc, hdst)
    out_srcs.append(hdst)
    sup = os.path.join(HARNESS_DIR, 'vf_support.c')
    sdst = os.path.join(srcdir, 'vf_support.c')
    shutil.copy(sup, sdst)
    out_srcs.append(sdst)

    entry = 'h_' + spec['unit']
    defs = ['-DSUPERLU_VERIF', '-DUSER_MALLOC=vf_malloc', '-DUSER_FREE=vf_free', '-DUSER_ABORT=vf_abort']
    defs += ['-D' + d for d in tier_defines(spec, tier)]
    defs += ['-D' + d for d in variant_defs]
    defs += ['-D' + d for d in extra_defs]
    gb0 = os.path.join(workdir, 'a.gb')
    cmd1 = ['goto-cc', '-I' + srcdir, '-include', 'vf_prelude.h'] + defs + spec['goto_flags'] + ['--function', entry] + out_srcs + ['-o', gb0]
    rc, out, err, w = run(cmd1, 300, 8, cwd=workdir)
    if rc != 0:
        raise Undecided('goto-cc failed (rc=%s): %s' % (rc, (err or out)[-3000:]))
    gb1 = os.path.join(workdir, 'b.gb')
    cmds = [cmd1]
    w2 = 0.0
    out = err = ''
    if spec['instrument'] == 'dfcc':
        cmd2 = ['goto-instrument', '--dfcc', entry]
        if enforce and not cex_mode:
            cmd2 += ['--enforce-contract', enforce]
        for g in replace:
            cmd2 += ['--replace-call-with-contract', g]
        if (spec['loops'] or spec['mode'] == 'proof') and not cex_mode and not drop_loops:
            cmd2 += ['--apply-loop-contracts']
        cmd2 += [gb0, gb1]
        steps = [cmd2]
    else:
        # legacy instrumentation: loop contracts first (the frame instrumentation of --enforce-contract
        # needs a loop-free body), then replace/enforce
        gbm = os.path.join(workdir, 'm.gb')
        steps = [['goto-instrument', '--apply-loop-contracts', gb0, gbm]]
        if spec.get('pre_unwind'):
            gbu = os.path.join(workdir, 'u.gb')
            steps = [['goto-instrument', '--unwindset', spec['pre_unwind'], '--unwinding-assertions', gb0, gbu],
                     ['goto-instrument', '--apply-loop-contracts', gbu, gbm]]
        if cex_mode or drop_loops:
            steps, gbm = [], gb0
        if drop_loops and unwind_all and not cex_mode:
            # bounded fallback of a legacy unit: the legacy --enforce-contract needs a loop-free body, so the loops of the
            # (restructured) code are unwound by goto-instrument first; paths beyond the bound are cut (assumption), which
            # can only lose refutations, never invent one
            rcl, outl, errl, wl = run(['goto-instrument', '--show-loops', gb0], 120, 4, cwd=workdir)
            lids = [l for l in re.findall(r'^Loop (\S+):', outl or '', flags=re.M) if not l.startswith('__CPROVER')]
            if lids:
                gbm = os.path.join(workdir, 'u.gb')
                steps = [['goto-instrument', '--unwindset', ','.join('%s:%d' % (l, unwind_all) for l in lids),
                          '--unwinding-assertions', gb0, gbm]]
        cmd2 = ['goto-instrument']
        if enforce and not cex_mode:
            cmd2 += ['--enforce-contract', enforce]
        for g in replace:
            cmd2 += ['--replace-call-with-contract', g]
        cmd2 += [gbm, gb1]
        steps.append(cmd2)
    for c in steps:
        rc, o, e, wx = run(c, 600, 12, cwd=workdir)
        w2 += wx
        out += o
        err += e
        cmds.append(c)
        if rc != 0:
            tag = 'Found CFG SCC (a loop without loop contract in a legacy-instrumented function): ' if 'Found CFG SCC' in (e + o) else ''
            raise Undecided('%sgoto-instrument failed (rc=%s): %s' % (tag, rc, (e + o)[-3000:]))
    return dict(gb=gb1, cmds=cmds, inserted=inserted, linemap=linemap, entry=entry, instr_log=out + err,
                build_s=w + w2)


def cbmc_cmd(spec, gb, tier, trace=False):
    cmd = ['cbmc', '--json-ui', '--object-bits', str(spec['object_bits'] or 12),
           '--bounds-check', '--pointer-check', '--div-by-zero-check',
           '--pointer-primitive-check', '--slice-formula']
    cmd += spec['cbmc_flags']
    if spec['mode'] == 'bounded':
        cmd += ['--unwind', str(spec['unwind']), '--unwinding-assertions']
    if trace:
        cmd += ['--trace']
    cmd += [gb]
    return cmd


def parse_cbmc_json(out):
    try:
        data = json.loads(out)
    except Exception:
        # truncated output (killed) - try to salvage
        return None, None, []
    results = None
    status = None
    msgs = []
    for el in data:
        if 'result' in el:
            results = el['result']
        if 'cProverStatus' in el:
            status = el['cProverStatus']
        if 'messageText' in el:
            msgs.append(el['messageText'])
    return results, status, msgs



def bounded_refutation(spec, tier, repo_root, variant, extra_defs, res, workdir):
    why = res['reason'][:300]
    k = spec.get('cex_unwind') or 6
    legacy = spec['instrument'] != 'dfcc'
    try:
        # the refutation search may use the smaller capacities declared for counterexample search (@@cex)
        # (a legacy unit stays legacy: its loops are unwound by goto-instrument before the contract is enforced)
        b = build_unit(spec, tier, workdir, repo_root, variant_defs=(variant[1] if variant else ()),
                       extra_defs=list(extra_defs) + list(spec.get('cex_defines') or []), drop_loops=True,
                       unwind_all=(k if legacy else None))
    except Undecided as e:
        res['reason'] = why + ' | bounded fallback: ' + str(e)
        return res
    # bound the loops of the code under test only; the loops of the contract-instrumentation library are bounded by
    # constants and must run to completion (cutting them would silently cut every path)
    rc0, out0, err0, w0 = run(['cbmc', '--show-loops', b['gb']], 120, 4, cwd=workdir)
    loops = [l for l in re.findall(r'^Loop (\S+):', out0 or '', flags=re.M) if not l.startswith('__CPROVER')]
    cmd = [c for c in cbmc_cmd(spec, b['gb'], tier)]
    if loops:
        cmd = cmd[:-1] + ['--unwindset', ','.join('%s:%d' % (l, k) for l in loops), cmd[-1]]
    tmo = spec['timeout'].get(tier, 300 if tier == 'quick' else 1800)
    rc, out, err, w = run(cmd, tmo, spec['memlimit_gb'] or 10, cwd=workdir)
    res['solver_s'] = round(w, 2)
    res['checker_cmd'] = 'BOUNDED FALLBACK (loop contracts do not match the restructured code): ' + ' '.join(os.path.basename(x) for x in cmd)
    if rc is None:
        res['reason'] = why + ' | bounded fallback timed out'
        return res
    results, status, msgs = parse_cbmc_json(out)
    if results is None:
        res['reason'] = why + ' | bounded fallback gave no result'
        return res
    fails = []
    for r in results:
        name, d = r.get('property', ''), r.get('description', '')
        loc = r.get('sourceLocation', {})
        clause = b['linemap'].get((os.path.basename(loc.get('file', '')), int(loc.get('line', 0) or 0)), '')
        if r.get('status') != 'FAILURE' or 'VF_COVER' in clause or '.unwind.' in name or 'unwinding assertion' in d:
            continue
        fails.append(dict(name=name, description=d, status='FAILURE', clause=clause, function=loc.get('function'),
                          line=loc.get('line'), file=os.path.basename(loc.get('file', ''))))
    res['obligations'] = len(results)
    res['discharged'] = 0
    if fails:
        res['status'] = 'fail'
        res['failed'] = fails
        res['bounded_refutation'] = True
        res['reason'] = why + ' | refuted by bounded execution (unwind %d) of the restructured code under the same function contract' % k
    else:
        res['reason'] = why + ' | bounded fallback (unwind %d) found no refutation: undecided' % k
    return res


def run_unit(spec, tier, repo_root=None, variant=None, keep=None, extra_defs=()):
    """Run one unit (one variant). Returns result dict."""
    t0 = time.time()
    res = dict(unit=spec['unit'], variant=variant[0] if variant else None, tier=tier, status='undecided',
               obligations=0, discharged=0, failed=[], covers=[], covers_missing=[], reason='',
               mode=spec['mode'], wall_s=0.0, solver_s=0.0)
    workdir = tempfile.mkdtemp(prefix='vf_%s_' % spec['unit'], dir=os.environ.get('VF_SCRATCH', '/tmp'))
    try:
        try:
            b = build_unit(spec, tier, workdir, repo_root, variant_defs=(variant[1] if variant else ()),
                           extra_defs=extra_defs)
        except Undecided as e:
            res['reason'] = str(e)
            if (('overlay of' in str(e) and 'loop' in str(e)) or 'Found CFG SCC' in str(e)) and spec['mode'] == 'proof' and spec['enforce']:
                # the code was restructured: the loop contracts no longer line up, so NO PROOF is possible (undecided).
                # A refutation still is: enforce the function contract on the new code with loops unwound (bounded).
                # Any FAILURE found that way is a real execution of the real code violating the contract.
                return bounded_refutation(spec, tier, repo_root, variant, extra_defs, res, workdir)
            return res
        res['inserted'] = b['inserted']
        res['build_s'] = round(b['build_s'], 2)
        cmd = cbmc_cmd(spec, b['gb'], tier)
        res['checker_cmd'] = ' | '.join(' '.join(os.path.basename(x) if x.startswith(workdir) else x for x in c)
                                        for c in b['cmds'] + [cmd])
        tmo = spec['timeout'].get(tier, 300 if tier == 'quick' else 1800)
        rc, out, err, w = run(cmd, tmo, spec['memlimit_gb'] or 10, cwd=workdir)
        res['solver_s'] = round(w, 2)
        if rc is None:
            res['reason'] = 'cbmc timeout after %ds' % tmo
            return res
        results, status, msgs = parse_cbmc_json(out)
        res['messages_tail'] = msgs[-5:]
        nobody = sorted(set(re.findall(r"no body for (?:function|callee) '?([\w$]+)'?", '\n'.join(msgs))))
        # DFCC-internal helper symbols are not user functions
        nobody = [f for f in nobody if not f.startswith('__CPROVER')]
        res['no_body'] = nobody
        bad_nobody = [f for f in nobody if f not in spec['allow_nobody']]
        if results is None:
            res['reason'] = 'cbmc produced no result (rc=%s): %s' % (rc, (err or '\n'.join(msgs[-8:]))[-1500:])
            return res
        if any('ignoring' in m and 'forall' in m for m in msgs):
            res['reason'] = 'quantifier ignored by back end'
            return res
        obligations = []
        for r in results:
            d = r.get('description', '')
            name = r.get('property', '')
            st = r.get('status')
            loc = r.get('sourceLocation', {})
            clause = b['linemap'].get((os.path.basename(loc.get('file', '')), int(loc.get('line', 0) or 0)), '')
            if 'VF_COVER' in clause and 'postcondition' in name:
                d = 'VF_COVER ' + clause.split('VF_COVER', 1)[1].rstrip('*/ ')
            r['clause'] = clause
            if d.startswith('VF_COVER'):
                (res['covers'] if st == 'FAILURE' else res['covers_missing']).append(d)
                continue
            obligations.append((name, d, st, r.get('sourceLocation', {}), r.get('clause', '')))
        res['obligations'] = len(obligations)
        res['discharged'] = sum(1 for o in obligations if o[2] == 'SUCCESS')
        res['failed'] = [dict(name=o[0], description=o[1], status=o[2], clause=o[4],
                              function=o[3].get('function'), line=o[3].get('line'), file=os.path.basename(o[3].get('file', '')))
                         for o in obligations if o[2] == 'FAILURE']
        if 'truncation-check' in spec.get('tool_artefacts', []):
            art = [f for f in res['failed'] if (f['description'] or '').strip() == 'Check that loop instrumentation was not truncated']
            if art:
                res['failed'] = [f for f in res['failed'] if f not in art]
                res['tool_artefacts_ignored'] = [f['name'] for f in art]
                res['discharged'] += 0
        # a failed UNWINDING ASSERTION of a bounded unit says the bound is too small for this configuration: undecided,
        # never a violation of the property
        unw = [f for f in res['failed'] if '.unwind.' in (f['name'] or '') or 'unwinding assertion' in (f['description'] or '')]
        if unw:
            res['failed'] = [f for f in res['failed'] if f not in unw]
            if not res['failed']:
                res['reason'] = 'unwinding assertion(s) failed (%s): the bound of this bounded unit is too small for this configuration: undecided' % unw[0]['name']
                return res
        # any other non-SUCCESS status (ERROR: solver out of memory / back-end failure, UNKNOWN) is NOT a refutation
        errs = [o for o in obligations if o[2] not in ('SUCCESS', 'FAILURE')]
        res['no_answer'] = len(errs)
        if errs and not res['failed']:
            # (with --slice-formula cbmc leaves the properties it did not need to look at as UNKNOWN once some
            #  property FAILED; a FAILURE is a refutation on its own, so that case is reported as a failure below)
            res['reason'] = 'solver gave no answer for %d obligations (status %s, e.g. %s): undecided' % (
                len(errs), sorted(set(o[2] for o in errs)), errs[0][0])
            return res
        res['samples'] = [dict(name=o[0], description=o[1][:160], status=o[2]) for o in obligations
                          if re.search(r'postcondition|loop_invariant|assigns', o[0]) or 'loop invariant' in o[1]][:6]
        kinds = {}
        for o in obligations:
            k = re.sub(r'\.\d+$', '', o[0])
            k = k.split('.')[-1] if '.' in k else k
            kinds[k] = kinds.get(k, 0) + 1
        res['obligation_kinds'] = kinds
        # vacuity guards
        if res['obligations'] == 0:
            res['reason'] = 'no obligations generated (vacuous)'
            return res
        nloops = len(spec['loops'])
        if nloops and spec['mode'] == 'proof':
            nb = sum(1 for o in obligations if 'loop_invariant_base' in o[0] or 'loop invariant before entry' in o[1])
            ns = sum(1 for o in obligations if 'loop_invariant_step' in o[0] or 'loop invariant is preserved' in o[1])
            res['loop_obligations'] = dict(base=nb, step=ns, loop_contracts=nloops)
            if nb == 0 or ns == 0:
                res['reason'] = 'loop contracts silently dropped (no loop_invariant obligations)'
                return res
        if enforce_missing_post(spec, obligations):
            res['reason'] = 'no postcondition obligations for enforced function (vacuous)'
            return res
        if res['failed']:
            res['status'] = 'fail'
            if keep:
                shutil.copytree(workdir, keep, dirs_exist_ok=True)
            return res
        if res['covers_missing']:
            res['reason'] = 'vacuity guard: cover goals not reachable: %s' % res['covers_missing']
            return res
        if not res['covers']:
            res['reason'] = 'vacuity guard: harness has no reachability cover'
            return res
        if bad_nobody:
            res['reason'] = 'body-less callees without contract: %s' % bad_nobody
            return res
        res['status'] = 'pass' if not res['failed'] else 'fail'
        if keep and res['failed']:
            shutil.copytree(workdir, keep, dirs_exist_ok=True)
        return res
    finally:
        res['wall_s'] = round(time.time() - t0, 2)
        shutil.rmtree(workdir, ignore_errors=True)


def enforce_missing_post(spec, obligations):
    if not spec['enforce']:
        return False
    # own contract or registry
    text = None
    if spec['enforce'] in spec['contracts']:
        text = spec['contracts'][spec['enforce']]['text']
    elif spec['enforce'] in registry():
        text = registry()[spec['enforce']]['text']
    if text and '__CPROVER_ensures' in text:
        return not any('postcondition' in o[0] for o in obligations)
    return False


def load_unit(name):
    p = os.path.join(CONTRACT_DIR, name + '.spec')
    if not os.path.exists(p):
        raise Undecided('no such unit: %s' % name)
    return parse_spec(p)


if __name__ == '__main__':
    import argparse
    ap = argparse.ArgumentParser()
    ap.add_argument('unit')
    ap.add_argument('--tier', default='quick')
    ap.add_argument('--repo', default=None)
    ap.add_argument('--variant', default=None)
    ap.add_argument('--keep', default=None)
    ap.add_argument('-D', action='append', default=[])
    a = ap.parse_args()
    sp = load_unit(a.unit)
    variants = sp['variants'] or [None]
    rc = 0
    for v in variants:
        if a.variant and (v is None or v[0] != a.variant):
            continue
        r = run_unit(sp, a.tier, a.repo, v, keep=a.keep, extra_defs=a.D)
        brief = {k: r[k] for k in ('unit', 'variant', 'status', 'obligations', 'discharged', 'reason', 'wall_s',
                                   'solver_s', 'covers', 'covers_missing') if k in r}
        print(json.dumps(brief, indent=1))
        for f in r['failed'][:40]:
            print('  FAILED', f['name'], '|', f['description'][:200], '|', f['function'], f['line'], '|', f['clause'][:200])
        if r['status'] != 'pass':
            rc = 1 if r['status'] == 'fail' else 2
    sys.exit(rc)
