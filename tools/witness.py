#!/usr/bin/env python3
"""witness.py - counterexample search on the real function body + native replay (DESIGN.md 3.4).

For a failed obligation of unit U (function f under contract C):

 1. GENERATE h_cex_<U>.c from the contract text itself (no hand-written harness): every parameter and
    ghost is an input drawn byte-wise through vf_input(); every `__CPROVER_requires(R)` becomes
    VF_ASSUME(R') where is_fresh(p,n) is a call that allocates n input bytes; `__CPROVER_old(e)` become
    snapshots; the REAL f is called; every `__CPROVER_ensures(E)` becomes VF_CHECK(k, E').
 2. SEARCH: build exactly like the proof build (same overlay, same replaced callees) but without enforcing
    the contract and WITHOUT loop contracts - loops are unwound (bounded) - so a trace is a real execution
    of the real code, not an inductive-step state. cbmc --trace; the bytes written to vf_log[] are the input.
 3. REPLAY: compile the same generated harness natively (-DVF_NATIVE) with gcc + ASan/UBSan against the
    real sources of /repo's working tree (whole SRC/ + CBLAS/), feed it the recorded bytes, and report
    the violation as confirmed only if the native run fails the same ensures clause (or a sanitizer fires
    for a safety obligation).  Replaced callees that carry a ghost call trace are intercepted with
    ld --wrap and call the REAL callee.

Anything that goes wrong here yields confirmed=False ("no-failing-input-found"): never a verdict.
"""
import glob
import json
import os
import re
import shutil
import subprocess
import sys
import tempfile

HERE = os.path.dirname(os.path.abspath(__file__))
VERIF = os.path.dirname(HERE)
sys.path.insert(0, HERE)
import overlay as ov  # noqa: E402
import prove  # noqa: E402


class NoWitness(Exception):
    pass


# ------------------------------------------------------------------ contract text -> clauses
def split_contract(text):
    """-> list of ('pp', line) | ('requires'|'ensures'|'assigns', body) in textual order (comments dropped)."""
    b = ov.blank(text)
    items = []
    i, n = 0, len(text)
    while i < n:
        if b[i] == ov.PP:
            j = text.find('\n', i)
            j = n if j < 0 else j
            # continuation lines
            while j < n and text[j - 1] == '\\':
                k = text.find('\n', j + 1)
                j = n if k < 0 else k
            items.append(('pp', text[i:j]))
            i = j + 1
            continue
        m = re.compile(r'__CPROVER_(requires|ensures|assigns|frees)\s*\(').match(b, i)
        if m:
            lp = m.end() - 1
            rp = ov.match_close(b, lp, '(', ')')
            body = text[lp + 1:rp]
            # drop comments inside the clause
            bb = b[lp + 1:rp]
            body = ''.join(ch if bch != ' ' or ch in ' \t\n' else (ch if not _in_comment(text, lp + 1 + k) else ' ')
                           for k, (ch, bch) in enumerate(zip(body, bb)))
            items.append((m.group(1), body))
            i = rp + 1
            continue
        i += 1
    return items


def _in_comment(text, pos):
    # position is inside a /* */ comment iff the last '/*' before it has no '*/' in between
    a = text.rfind('/*', 0, pos + 1)
    if a < 0:
        return False
    z = text.find('*/', a + 2)
    return z < 0 or z + 1 >= pos


def strip_comments(s):
    return re.sub(r'/\*.*?\*/', ' ', s, flags=re.S)


# ------------------------------------------------------------------ expression rewriting
def _split_top(s, seps):
    """split s at top-level occurrences of any separator in seps (strings); returns (parts, seps_found)"""
    parts, found = [], []
    depth = 0
    cur = ''
    i = 0
    while i < len(s):
        ch = s[i]
        if ch in '([{':
            depth += 1
        elif ch in ')]}':
            depth -= 1
        if ch in '"\'':
            j = i + 1
            while j < len(s) and s[j] != ch:
                if s[j] == '\\':
                    j += 1
                j += 1
            cur += s[i:j + 1]
            i = j + 1
            continue
        hit = None
        if depth == 0:
            for sp in seps:
                if s.startswith(sp, i):
                    hit = sp
                    break
        if hit:
            parts.append(cur)
            found.append(hit)
            cur = ''
            i += len(hit)
            continue
        cur += ch
        i += 1
    parts.append(cur)
    return parts, found


def rw_implies(s):
    """rewrite every `A ==> B` (lowest-precedence binary operator, right associative) into (!(A) || (B)),
    recursively inside parentheses, brackets, braces and argument lists."""
    # first recurse into groups
    out = ''
    i = 0
    while i < len(s):
        ch = s[i]
        if ch in '"\'':
            j = i + 1
            while j < len(s) and s[j] != ch:
                if s[j] == '\\':
                    j += 1
                j += 1
            out += s[i:j + 1]
            i = j + 1
            continue
        if ch in '([{':
            close = {'(': ')', '[': ']', '{': '}'}[ch]
            depth, j = 0, i
            while True:
                if s[j] in '([{':
                    depth += 1
                elif s[j] in ')]}':
                    depth -= 1
                    if depth == 0:
                        break
                j += 1
            inner = s[i + 1:j]
            sep = ';' if ch == '{' else ','
            parts, _ = _split_top(inner, [sep])
            out += ch + sep.join(rw_implies(p) for p in parts) + close
            i = j + 1
            continue
        out += ch
        i += 1
    parts, _ = _split_top(out, ['==>'])
    if len(parts) == 1:
        return out
    # ?: binds weaker than ==> in CBMC's grammar only in theory; the specs never mix them unparenthesised
    res = parts[-1]
    for a in reversed(parts[:-1]):
        res = '(!(%s) || (%s))' % (a.strip(), res.strip())
    return res


def find_calls(s, name):
    """yield (start, end_exclusive, [args]) for each `name(...)` in s"""
    res = []
    for m in re.finditer(r'\b%s\s*\(' % re.escape(name), s):
        lp = m.end() - 1
        depth, j = 0, lp
        while True:
            if s[j] == '(':
                depth += 1
            elif s[j] == ')':
                depth -= 1
                if depth == 0:
                    break
            j += 1
        args, _ = _split_top(s[lp + 1:j], [','])
        res.append((m.start(), j + 1, args))
    return res


def replace_old(expr, olds):
    """replace __CPROVER_old(e) by snapshot variables (innermost first); olds: list of e texts"""
    while True:
        calls = find_calls(expr, '__CPROVER_old')
        if not calls:
            return expr
        # take the last (so nested/inner ones to the right are handled first is irrelevant: they never nest)
        st, en, args = calls[-1]
        e = ','.join(args).strip()
        if e not in olds:
            olds.append(e)
        expr = expr[:st] + ('vf_old_%d' % olds.index(e)) + expr[en:]


def native_quantifiers(expr):
    """__CPROVER_forall/exists { T q; body } -> GNU statement expression over the range found in body's guard"""
    while True:
        m = re.search(r'__CPROVER_(forall|exists)\s*\{', expr)
        if not m:
            return expr
        lb = m.end() - 1
        depth, j = 0, lb
        while True:
            if expr[j] == '{':
                depth += 1
            elif expr[j] == '}':
                depth -= 1
                if depth == 0:
                    break
            j += 1
        inner = expr[lb + 1:j]
        decl, body = inner.split(';', 1)
        decl = decl.strip()
        q = decl.split()[-1]
        g = re.search(r'\(?\s*([^()&|]+?)\s*<=\s*%s\s*&&\s*%s\s*(<=|<)\s*([^()&|]+?)\s*\)' % (q, q), body)
        if not g:
            raise NoWitness('quantifier range not recognised: %s' % inner[:80])
        lo, rel, hi = g.group(1), g.group(2), g.group(3)
        body = native_quantifiers(body)
        if m.group(1) == 'forall':
            rep = '({ int vf_r = 1; for (%s = (%s); %s %s (%s); %s++) if (!(%s)) { vf_r = 0; break; } vf_r; })' % (decl, lo, q, rel, hi, q, body)
        else:
            rep = '({ int vf_r = 0; for (%s = (%s); %s %s (%s); %s++) if (%s) { vf_r = 1; break; } vf_r; })' % (decl, lo, q, rel, hi, q, body)
        expr = expr[:m.start()] + rep + expr[j + 1:]


# ------------------------------------------------------------------ prototype parsing
def parse_proto(hdr, fn):
    m = re.search(r'\b%s\s*\(' % re.escape(fn), hdr)
    if not m:
        raise NoWitness('prototype of %s not parseable' % fn)
    ret = hdr[:m.start()].strip()
    ret = re.sub(r'\b(extern|static|inline)\b', '', ret).strip() or 'int'
    inner = hdr[m.end():hdr.rindex(')')]
    params = []
    if inner.strip() and inner.strip() != 'void':
        parts, _ = _split_top(inner, [','])
        for p in parts:
            p = p.strip()
            arr = 0
            while re.search(r'\[[^\]]*\]\s*$', p):
                p = re.sub(r'\[[^\]]*\]\s*$', '', p).strip()
                arr += 1
            mm = re.search(r'(\w+)\s*$', p)
            if not mm:
                raise NoWitness('parameter not parseable: %r' % p)
            name = mm.group(1)
            typ = p[:mm.start()].strip() + ' ' + '*' * arr
            typ = re.sub(r'\bconst\b', '', typ)       # harness-side variables must be assignable
            typ = re.sub(r'\s+', ' ', typ).strip()
            params.append((typ, name))
    return ret, params


GHOSTS = ['g_i', 'g_j', 'g_k', 'g_l', 'g_a', 'g_b', 'g_c', 'g_d', 'g_p0', 'g_p1', 'g_p2', 'g_p3', 'g_live', 'g_seq']


def contract_of(spec, fn):
    if fn in spec['contracts']:
        return spec['contracts'][fn]['text'], spec['contracts'][fn]['file']
    r = prove.registry().get(fn)
    if r and r['kind'] == 'repo':
        return r['text'], r.get('file')
    raise NoWitness('no contract text for %s' % fn)


def preprocess_clauses(spec, root, items, incs, defs):
    """macro-expand every clause with the real preprocessor (same -D, same headers): ghost-trace macros hide
    __CPROVER_old / is_fresh, and #ifdef blocks around clauses are resolved. -> {(kind, k): expanded text}"""
    tmp = tempfile.mkdtemp(prefix='vf_pp_', dir=os.environ.get('VF_SCRATCH', '/tmp'))
    try:
        L = list(incs) + ['__VF_START__']
        kreq = kens = 0
        for kind, val in items:
            if kind == 'pp':
                L.append(val)
            elif kind == 'requires':
                L.append('__VF_B__ requires %d __VF_M__ %s __VF_E__' % (kreq, strip_comments(val)))
                kreq += 1
            elif kind == 'ensures':
                L.append('__VF_B__ ensures %d __VF_M__ %s __VF_E__' % (kens, strip_comments(val)))
                kens += 1
        f = os.path.join(tmp, 'clauses.c')
        open(f, 'w').write('\n'.join(L) + '\n')
        cmd = ['gcc', '-E', '-P', '-w', '-I' + os.path.join(root, 'SRC'), '-I' + prove.CONTRACT_DIR, '-include', 'vf_prelude.h',
               '-DSUPERLU_VERIF', '-DUSER_MALLOC=vf_malloc', '-DUSER_FREE=vf_free', '-DUSER_ABORT=vf_abort'] + ['-D' + d for d in defs] + [f]
        p = subprocess.run(cmd, capture_output=True, text=True)
        if p.returncode != 0:
            raise NoWitness('preprocessing the contract failed: ' + p.stderr[-600:])
        out = p.stdout.split('__VF_START__', 1)[1]
        res = {}
        for m in re.finditer(r'__VF_B__\s+(requires|ensures)\s+(\d+)\s+__VF_M__(.*?)__VF_E__', out, flags=re.S):
            res[(m.group(1), int(m.group(2)))] = ' '.join(m.group(3).split())
        return res
    finally:
        shutil.rmtree(tmp, ignore_errors=True)


def generate_harness(spec, root, defs=()):
    fn = spec['enforce']
    text, cfile = contract_of(spec, fn)
    text = prove.subst_capsz(text, enforced=True)
    src = None
    for rel in spec['sources']:
        t = open(prove.repo_file(rel, root)).read()
        try:
            hdr = ov.function_header(t, fn)
            src = rel
            break
        except ov.OverlayError:
            continue
    if src is None:
        raise NoWitness('definition of %s not found' % fn)
    ret, params = parse_proto(hdr, fn)
    items = split_contract(text)
    incs = [l for l in open(os.path.join(VERIF, spec['harness'])).read().split('\n')
            if l.startswith('#include') and 'vf_replaced.h' not in l and 'vf_prelude.h' not in l]
    ens_texts = [' '.join(strip_comments(v).split()) for kind, v in items if kind == 'ensures']
    nreq = sum(1 for kind, v in items if kind == 'requires')
    exp = preprocess_clauses(spec, root, items, incs, defs)
    olds = []
    reqs, enss = [], []
    for k in range(nreq):
        if ('requires', k) in exp:
            reqs.append(rw_implies(exp[('requires', k)]))
    for k in range(len(ens_texts)):
        if ('ensures', k) in exp:
            e = rw_implies(exp[('ensures', k)])
            e = replace_old(e, olds)
            e = e.replace('__CPROVER_return_value', 'vf_ret')
            enss.append((k, e, ens_texts[k]))
    L = []
    L.append('/* GENERATED by tools/witness.py from the contract of %s (%s), macro-expanded with -D %s - do not edit */' % (fn, os.path.basename(spec['path']), ' '.join(defs)))
    L.append('#include "vf_prelude.h"')
    L += incs
    L.append('#ifndef VF_NATIVE\n#include "vf_replaced.h"\n#else\n#include "vf_native_decls.h"\n#endif')
    L.append('#include "vf_cex.h"')
    L.append('#define __CPROVER_is_fresh(p, n) VF_FRESH(p, n)')
    L.append('void h_%s(void)\n{' % spec['unit'])
    for typ, name in params:
        L.append('    %s %s; vf_input(&%s, sizeof %s);' % (typ, name, name, name))
    for g in GHOSTS:
        L.append('    vf_input(&%s, sizeof %s);' % (g, g))
    L.append('#define VF_FRESH(p, n) vf_fresh((void **)&(p), (n))')
    for val in reqs:
        if '__CPROVER_forall' in val or '__CPROVER_exists' in val:
            if 'is_fresh' in val:
                raise NoWitness('requires clause mixes is_fresh and a quantifier')
            L.append('#ifndef VF_NATIVE\n    VF_ASSUME(%s);\n#endif' % val)
        else:
            L.append('    VF_ASSUME(%s);' % val)
    L.append('#undef VF_FRESH\n#define VF_FRESH(p, n) VF_VALID((p), (n))')
    for i, e in enumerate(olds):
        L.append('    __typeof__(%s) vf_old_%d = (%s);' % (e, i, e))
    args = ', '.join(n for _, n in params)
    if ret.replace(' ', '') == 'void':
        L.append('    %s(%s);' % (fn, args))
    else:
        L.append('    %s vf_ret = %s(%s);' % (ret, fn, args))
    for kk, e, raw in enss:
        cq = json.dumps(raw[:300])
        if '__CPROVER_forall' in e or '__CPROVER_exists' in e:
            try:
                ne = native_quantifiers(e)
            except NoWitness:
                ne = None
            L.append('#ifndef VF_NATIVE\n    VF_CHECK(%d, %s, %s);\n#else' % (kk, e, cq))
            if ne:
                L.append('    VF_CHECK(%d, %s, %s);' % (kk, ne, cq))
            L.append('#endif')
        else:
            L.append('    VF_CHECK(%d, %s, %s);' % (kk, e, cq))
    L.append('}')
    L.append('#ifdef VF_NATIVE\nint main(int argc, char **argv) { vf_verbose = argc > 1; h_%s(); '
             'if (vf_failed) { printf("VF_REPLAY result: VIOLATION reproduced on the real code\\n"); return 1; } '
             'printf("VF_REPLAY result: all ensures clauses hold on this input\\n"); return 0; }\n#endif' % spec['unit'])
    return '\n'.join(L) + '\n', ens_texts, (ret, params), src


# ------------------------------------------------------------------ CBMC search
def norm(s):
    return re.sub(r'\s+', '', s or '')


def target_of(f, ens_texts):
    """which generated assertion corresponds to the failed obligation: ('ens', k) or ('safety', f)"""
    name = f.get('name') or ''
    clause = f.get('clause') or ''
    if 'postcondition' in name and clause:
        m = re.search(r'__CPROVER_ensures\s*\((.*)\)\s*(/\*.*\*/)?\s*$', clause, flags=re.S)
        body = norm(strip_comments(m.group(1))) if m else norm(clause)
        for k, t in enumerate(ens_texts):
            if norm(t) == body or norm(prove.subst_capsz(t, True)) == body:
                return ('ens', k)
        # multi-line clauses: linemap keeps only the first line
        for k, t in enumerate(ens_texts):
            if body and norm(t).startswith(body[:-1] if body.endswith(')') else body):
                return ('ens', k)
        return None
    if re.search(r'pointer_dereference|bounds|overflow|division|pointer_arithmetic|pointer_primitives|free|NaN', name):
        return ('safety', f)
    return None


def cex_defs(spec):
    """capacity defines of the search: later -D wins in goto-cc/gcc, so these override the tier's"""
    return list(spec.get('cex_defines') or [])


def cex_search(spec, tier, variant, target, harness_text, root, workdir, unwind, ens_order):
    sp = dict(spec)
    hpath = os.path.join(workdir, 'h_cex_%s.c' % spec['unit'])
    open(hpath, 'w').write(harness_text)
    sp['harness'] = hpath
    sp['enforce_saved'] = spec['enforce']
    sp['mode'] = 'bounded'
    sp['loops_saved'] = spec['loops']
    sp['extra_sources'] = list(spec['extra_sources']) + [os.path.join(prove.HARNESS_DIR, 'vf_cex_support.c')]
    vdefs = ()
    if variant:
        for v in spec['variants']:
            if v[0] == variant:
                vdefs = v[1]
    # same overlay as the proof build (contract and loop-contract text stay in place so that line numbers are
    # identical) but nothing is enforced and loop contracts are not applied
    b = prove.build_unit(sp, tier, workdir, root, variant_defs=vdefs, cex_mode=True, extra_defs=cex_defs(spec))
    base = ['cbmc', '--json-ui', '--object-bits', str(spec['object_bits'] or 12), '--slice-formula',
            '--unwind', str(unwind), '--unwindset', 'vf_input.0:%d' % 4100]
    base += [x for x in spec['cbmc_flags'] if x not in ('--stop-on-fail',)]

    def run_cbmc(extra, tmo):
        rc, out, err, w = prove.run(base + extra + [b['gb']], tmo, max(spec['memlimit_gb'] or 10, 12), cwd=workdir)
        if rc is None:
            raise NoWitness('counterexample search timed out (%d s)' % tmo)
        try:
            data = json.loads(out)
        except Exception:
            raise NoWitness('cbmc output not parseable (rc=%s): %s' % (rc, (err or out)[-300:]))
        for el in data:
            if 'result' in el:
                return el['result']
        msgs = [el.get('messageText', '') for el in data if isinstance(el, dict)]
        raise NoWitness('cbmc gave no result: %s' % ' | '.join(msgs[-4:])[:600])

    if target[0] == 'ens':
        pname = 'h_%s.assertion.%d' % (spec['unit'], ens_order.index(target[1]) + 1)
    else:
        # pass 1 (no trace): which property of THIS build is the failed safety obligation
        f = target[1]
        pname = None
        for r in run_cbmc([], 600):
            loc = r.get('sourceLocation', {})
            if r.get('status') == 'FAILURE' and os.path.basename(loc.get('file', '')) == f.get('file') \
                    and str(loc.get('line')) == str(f.get('line')) and norm(r.get('description')) == norm(f.get('description')):
                pname = r.get('property')
                break
        if pname is None:
            raise NoWitness('bounded search (unwind %d) found no concrete execution failing this obligation' % unwind)
    results = run_cbmc(['--property', pname, '--trace'], 900)
    chosen = None
    for r in results:
        if r.get('status') != 'FAILURE' or 'trace' not in r:
            continue
        d = r.get('description', '')
        if target[0] == 'ens':
            if d.strip() == 'VF_ENS %d' % target[1]:
                chosen = r
                break
        else:
            f = target[1]
            loc = r.get('sourceLocation', {})
            if os.path.basename(loc.get('file', '')) == f.get('file') and str(loc.get('line')) == str(f.get('line')) \
                    and norm(d) == norm(f.get('description')):
                chosen = r
                break
    if chosen is None:
        raise NoWitness('bounded search (unwind %d, capacity as in the %s tier) found no concrete execution failing this obligation' % (unwind, tier))
    recs = {}
    call_no, it, inside = -1, -1, False
    for st in chosen['trace']:
        ty = st.get('stepType')
        fn = st.get('function')
        fid = fn.get('identifier') if isinstance(fn, dict) else fn
        if ty == 'function-call' and fid == 'vf_input':
            call_no += 1
            it, inside = -1, True
        elif ty == 'function-return' and fid == 'vf_input':
            inside = False
        elif inside and ty == 'loop-head':
            it += 1
        elif inside and ty == 'assignment' and not st.get('hidden') and st.get('lhs') == 'vf_in_byte' and it >= 0:
            v = st.get('value', {})
            try:
                x = int(v.get('data'))
            except Exception:
                try:
                    x = int(v.get('binary', '0'), 2)
                except Exception:
                    continue
            recs[(call_no, it)] = (call_no << 24) | (it << 8) | (x & 0xff)
    if not recs:
        raise NoWitness('trace carries no input bytes')
    data = [recs[k] for k in sorted(recs)]
    return data, chosen.get('property'), chosen.get('description')


# ------------------------------------------------------------------ native replay
def traced_callees(spec):
    lst = re.search(r'#define VF_TRACE_LIST\(X\)(.*?)\n#define', open(os.path.join(prove.CONTRACT_DIR, 'vf_prelude.h')).read(), flags=re.S)
    names = set(re.findall(r'X\((\w+)\)', lst.group(1))) if lst else set()
    return [g for g in spec['replace'] if g in names]


def callee_info(spec, g, root):
    """(prototype header, contract text incl. replace_extra) for a replaced callee"""
    reg = prove.registry()
    if g in spec['externals']:
        return spec['externals'][g]['decl'], spec['externals'][g]['text']
    if g in spec['contracts']:
        text = spec['contracts'][g]['text'] + '\n' + spec['replace_extra'].get(g, '')
        cfile = spec['contracts'][g]['file']
    elif g in spec.get('pins', {}):
        r = prove.pinned(g, spec['pins'][g])
        if r['kind'] == 'external':
            return r['decl'], r['text']
        text, cfile = r['text'] + '\n' + r['extra'], r['file']
    elif g in reg:
        r = reg[g]
        if r['kind'] == 'external':
            return r['decl'], r['text']
        text, cfile = r['text'] + '\n' + r['extra'], r['file']
    else:
        raise NoWitness('no contract for %s' % g)
    hdr = ov.function_header(open(prove.repo_file(cfile, root)).read(), g)
    return hdr, text


def gen_wrappers(spec, root):
    """ld --wrap interceptors for replaced callees that carry a ghost call trace: call the REAL callee, then
    record the call exactly as the callee contract's TRI/TRP equalities say"""
    out = []
    wraps = []
    decls = []
    for g in traced_callees(spec):
        try:
            hdr, text = callee_info(spec, g, root)
        except (NoWitness, ov.OverlayError, OSError):
            continue
        hdr = hdr.split(';')[-1].strip() if ';' in hdr else hdr
        try:
            ret, params = parse_proto(hdr, g)
        except NoWitness:
            continue
        text = prove.subst_capsz(text, enforced=False)
        pre = [v for kind, v in split_contract(text) if kind == 'pp' and re.match(r'\s*#\s*define', v)]
        assigns = []
        for kind, v in split_contract(text):
            if kind != 'ensures':
                continue
            conj, _ = _split_top(strip_comments(v), ['&&'])
            for c in conj:
                c = c.strip()
                while c.startswith('(') and c.endswith(')') and ov.match_close(c, 0, '(', ')') == len(c) - 1:
                    c = c[1:-1].strip()
                m = re.match(r'(TR[IP])\(\s*%s\s*,\s*(\d+)\s*\)\s*==\s*(.*)$' % re.escape(g), c, flags=re.S)
                if m and '__CPROVER' not in m.group(3) and '==>' not in m.group(3):
                    cast = '(long)' if m.group(1) == 'TRI' else '(const void *)'
                    assigns.append('    g_tr_%s.%s[%s] = %s(%s);' % (g, 'i' if m.group(1) == 'TRI' else 'p', m.group(2), cast, m.group(3).strip()))
        plist = ', '.join('%s %s' % (t, n) for t, n in params) or 'void'
        alist = ', '.join(n for _, n in params)
        isvoid = ret.replace(' ', '') == 'void'
        out += pre
        out.append('%s __real_%s(%s);' % (ret, g, plist))
        out.append('%s __wrap_%s(%s)\n{' % (ret, g, plist))
        out.append('    %s__real_%s(%s);' % ('' if isvoid else ret + ' vf_r = ', g, alist))
        out.append('    g_tr_%s.calls++; g_seq++; g_tr_%s.when = g_seq;' % (g, g))
        out += assigns
        out.append('    %s\n}' % ('return;' if isvoid else 'return vf_r;'))
        wraps.append(g)
        decls.append('%s %s(%s);' % (ret, g, plist))
    return '\n'.join(out) + '\n', wraps, decls


def native_build_and_run(outdir, root, spec, wraps, tier, variant):
    """compile the whole library of `root` + the generated harness natively with sanitizers; run; -> dict"""
    build = tempfile.mkdtemp(prefix='vf_native_', dir=os.environ.get('VF_SCRATCH', '/tmp'))
    try:
        defs = ['-DVF_NATIVE', '-DUSER_MALLOC=vf_malloc', '-DUSER_FREE=vf_free', '-DUSER_ABORT=vf_abort', '-DSUPERLU_VERIF']
        defs += ['-D' + d for d in prove.tier_defines(spec, tier)]
        defs += ['-D' + d for d in cex_defs(spec)]
        if variant:
            for v in spec['variants']:
                if v[0] == variant:
                    defs += ['-D' + d for d in v[1]]
        # -include is applied to the harness only; the library needs the three hook prototypes
        hook = os.path.join(build, 'vf_hooks.h')
        open(hook, 'w').write('#include <stddef.h>\nvoid *vf_malloc(size_t); void vf_free(void *); void vf_abort(char *);\n')
        san = ['-g', '-O1', '-fsanitize=address,undefined', '-fno-sanitize-recover=undefined', '-fno-omit-frame-pointer', '-w']
        srcs = sorted(glob.glob(os.path.join(root, 'SRC', '*.c')) + glob.glob(os.path.join(root, 'CBLAS', '*.c')))
        for rel in spec['sources'] + spec['extra_sources']:
            p = prove.repo_file(rel, root)
            if p not in srcs and os.path.exists(p) and not p.startswith(VERIF):
                srcs.append(p)
        mk = ['OBJS =']
        objs = []
        rules = []
        for i, s in enumerate(srcs):
            o = os.path.join(build, 'o%d_%s.o' % (i, os.path.basename(s)[:-2]))
            objs.append(o)
            rules.append('%s: %s\n\t@gcc -c %s -I%s -I%s -include %s %s -o %s %s\n' % (
                o, s, ' '.join(san), os.path.join(root, 'SRC'), os.path.join(root, 'CBLAS'), hook,
                ' '.join(d for d in defs if d.startswith('-DUSER') or d == '-DSUPERLU_VERIF'), o, s))
        open(os.path.join(build, 'Makefile'), 'w').write('all: %s\n%s' % (' '.join(objs), ''.join(rules)))
        p = subprocess.run(['make', '-C', build, '-j12', '-k'], capture_output=True, text=True, timeout=900)
        objs = [o for o in objs if os.path.exists(o)]
        if not objs:
            return dict(confirmed=False, error='native library build failed: ' + p.stderr[-800:])
        exe = os.path.join(build, 'replay')
        inc = ['-I' + outdir, '-I' + os.path.join(root, 'SRC'), '-I' + os.path.join(root, 'CBLAS'), '-I' + prove.CONTRACT_DIR, '-I' + prove.HARNESS_DIR]
        hs = [os.path.join(outdir, x) for x in ('harness.c', 'wrappers.c', 'vf_replay_data.c')] + [os.path.join(prove.HARNESS_DIR, 'vf_cex_support.c')]
        cmd = ['gcc'] + san + defs + inc + ['-include', 'vf_prelude.h'] + hs + objs + ['-Wl,--allow-multiple-definition'] + \
              ['-Wl,--wrap=%s' % g for g in wraps] + ['-lm', '-o', exe]
        p = subprocess.run(cmd, capture_output=True, text=True, timeout=600)
        if p.returncode != 0:
            return dict(confirmed=False, error='native harness build failed: ' + p.stderr[-1500:])
        env = dict(os.environ, ASAN_OPTIONS='detect_leaks=0:abort_on_error=0', UBSAN_OPTIONS='print_stacktrace=1')
        try:
            r = subprocess.run([exe, '-v'], capture_output=True, text=True, timeout=120, env=env)
            rc, so, se = r.returncode, r.stdout, r.stderr
        except subprocess.TimeoutExpired:
            rc, so, se = 124, '', 'native run timed out (120 s): the real code does not terminate on this input'
        return dict(returncode=rc, stdout=so[-6000:], stderr=se[-6000:])
    finally:
        shutil.rmtree(build, ignore_errors=True)


def judge(target, run):
    so, se, rc = run.get('stdout', ''), run.get('stderr', ''), run.get('returncode')
    if 'precondition-not-met' in so:
        return False, 'native run: recorded input does not meet the precondition (trace incomplete)'
    if target[0] == 'ens':
        if re.search(r'VF_REPLAY FAILED ensures#%d\b' % target[1], so):
            return True, 'the real code, compiled by gcc from the working tree, violates ensures#%d on the recorded input' % target[1]
        if 'ERROR: AddressSanitizer' in se or 'runtime error:' in se:
            # not a confirmation of THIS clause: with replaced (abstracted) callees the verifier's input need not be
            # realisable by the real callees (e.g. factor objects that only satisfy a protocol contract)
            return False, 'native run stopped in a sanitizer report before the clause could be evaluated (input not realisable with the real callees?)'
        return False, 'native run did not fail this clause'
    if 'ERROR: AddressSanitizer' in se or 'runtime error:' in se or rc in (124, -11, 139):
        return True, 'sanitizer / crash on the recorded input'
    return False, 'native run was clean'


def try_witness(prop, spec, r, f, outdir_base, base, root=None):
    root = root or prove.REPO
    if not spec or not spec.get('enforce'):
        return None
    tier = r.get('tier', 'quick')
    variant = r.get('variant')
    work = tempfile.mkdtemp(prefix='vf_wit_', dir=os.environ.get('VF_SCRATCH', '/tmp'))
    info = dict(confirmed=False)
    try:
        try:
            vd = []
            if variant:
                for v in spec['variants']:
                    if v[0] == variant:
                        vd = list(v[1])
            htext, ens_texts, proto, src = generate_harness(spec, root, prove.tier_defines(spec, tier) + vd + cex_defs(spec))
            target = target_of(f, ens_texts)
            if target is None:
                raise NoWitness('obligation kind has no executable counterpart (frame / loop-invariant / precondition-of-callee obligations are not replayable)')
            unwind = int(os.environ.get('VF_CEX_UNWIND', '0') or 0) or spec.get('cex_unwind') or 7
            ens_order = [int(m) for m in re.findall(r'^    VF_CHECK\((\d+),', htext.split('#else')[0] if False else htext, flags=re.M)]
            ens_order = sorted(set(ens_order), key=ens_order.index)
            if target[0] == 'ens' and target[1] not in ens_order:
                raise NoWitness('clause is compiled out in this configuration')
            data, pname, pdesc = cex_search(spec, tier, variant, target, htext, root, work, unwind, ens_order)
            outdir = os.path.join(outdir_base, base + '.replay')
            shutil.rmtree(outdir, ignore_errors=True)
            os.makedirs(outdir)
            open(os.path.join(outdir, 'harness.c'), 'w').write(htext)
            wtext, wraps, decls = gen_wrappers(spec, root)
            open(os.path.join(outdir, 'wrappers.c'), 'w').write(
                '#include "vf_prelude.h"\n' + '\n'.join(l for l in htext.split('\n') if l.startswith('#include') and 'vf_' not in l) + '\n#include "vf_native_decls.h"\n' + wtext)
            ext_decls = []
            for g in spec['replace']:
                try:
                    hdr, _ = callee_info(spec, g, root)
                    if g in spec['externals'] or (prove.registry().get(g) or {}).get('kind') == 'external':
                        ext_decls.append(hdr.rstrip(';') + ';')
                except Exception:
                    pass
            open(os.path.join(outdir, 'vf_native_decls.h'), 'w').write('/* prototypes of trusted externals used by the contract */\n' + '\n'.join(ext_decls) + '\n')
            open(os.path.join(outdir, 'vf_replay_data.c'), 'w').write(
                '/* input of the verifier\'s counterexample: (slot << 24 | offset << 8 | byte) */\n'
                'const unsigned long vf_replay_recs[] = {%s};\nconst unsigned vf_replay_len = %d;\n' % (','.join('0x%xUL' % x for x in data), len(data)))
            meta = dict(unit=spec['unit'], variant=variant, tier=tier, target=[target[0], target[1] if target[0] == 'ens' else f.get('name')],
                        wraps=wraps, cex_property=pname, input_bytes=len(data), unwind=unwind,
                        clause=ens_texts[target[1]] if target[0] == 'ens' else f.get('description'))
            json.dump(meta, open(os.path.join(outdir, 'meta.json'), 'w'), indent=1)
            run = native_build_and_run(outdir, root, spec, wraps, tier, variant)
            info.update(source=outdir, meta=meta, native_run=run)
            if 'error' in run:
                info['error'] = run['error']
                return info
            ok, why = judge(target, run)
            info['confirmed'] = ok
            info['verdict'] = why
            return info
        except NoWitness as e:
            info['error'] = str(e)
            return info
        except (prove.Undecided, ov.OverlayError) as e:
            info['error'] = 'cex build failed: %s' % str(e)[:1500]
            return info
    finally:
        shutil.rmtree(work, ignore_errors=True)


def rerun(nr):
    """./check <prop> --replay <file>: rebuild the recorded native replay against the CURRENT working tree"""
    src = nr['source']
    meta = json.load(open(os.path.join(src, 'meta.json')))
    spec = prove.load_unit(meta['unit'])
    run = native_build_and_run(src, prove.REPO, spec, meta['wraps'], meta['tier'], meta['variant'])
    print((run.get('stdout') or '')[-3000:])
    print((run.get('stderr') or run.get('error') or '')[-3000:])
    tgt = (meta['target'][0], meta['target'][1] if meta['target'][0] == 'ens' else None)
    ok, why = judge(tgt, run) if 'error' not in run else (False, run['error'])
    print('replay:', 'VIOLATION reproduced' if ok else 'not reproduced', '-', why)
    return 1 if ok else 0
