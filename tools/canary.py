#!/usr/bin/env python3
"""canary.py - verifies, with the installed cbmc, the tool behaviour that prove.fix_upto() relies on."""
import os
import re
import subprocess
import sys

HERE = os.path.dirname(os.path.abspath(__file__))


def run():
    """-> (ok, message)"""
    src = os.path.join(HERE, 'canary_havoc.c')
    msgs = []
    for elt in ('int', 'double'):
        p = subprocess.run(['cbmc', '-DELT=' + elt, '-DWIDEN', '--unwind', '17', src], capture_output=True, text=True, timeout=300)
        st = dict(re.findall(r'\] line \d+ (\w+): (SUCCESS|FAILURE)', p.stdout))
        if st.get('w_first') != 'FAILURE' or st.get('w_last') != 'FAILURE' or st.get('w_beyond') != 'SUCCESS':
            return False, 'havoc canary (%s, widened): unexpected %r' % (elt, st)
        p = subprocess.run(['cbmc', '-DELT=' + elt, '--unwind', '17', src], capture_output=True, text=True, timeout=300)
        st = dict(re.findall(r'\] line \d+ (\w+): (SUCCESS|FAILURE)', p.stdout))
        msgs.append('%s: unwidened symbolic havoc %s the last element' % (elt, 'MISSES' if st.get('bug') == 'SUCCESS' else 'covers'))
    return True, '; '.join(msgs)


if __name__ == '__main__':
    ok, msg = run()
    print(('canary ok: ' if ok else 'CANARY FAILED: ') + msg)
    sys.exit(0 if ok else 2)
