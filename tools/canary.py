#!/usr/bin/env python3
"""canary.py - verifies, with the installed cbmc, the tool behaviour that prove.fix_upto() relies on."""
import os
import re
import subprocess
import sys

HERE = os.path.dirname(os.path.abspath(__file__))


def run():
    """-> (ok, message)"""
    src = os.path.join(HERE, 'canary_havoc.c')
    msgs = []
    for elt in ('int', 'double'):
        p = subprocess.run(['cbmc', '-DELT=' + elt, '-DWIDEN', '--unwind', '17', src], capture_output=True, text=True, timeout=300)
        st = dict(re.findall(r'\] line \d+ (\w+): (SUCCESS|FAILURE)', p.stdout))
        if st.get('w_first') != 'FAILURE' or st.get('w_last') != 'FAILURE' or st.get('w_beyond') != 'SUCCESS':
            return False, 'havoc canary (%s, widened): unexpected %r' % (elt, st)
        p = subprocess.run(['cbmc', '-DELT=' + elt, '--unwind', '17', src], capture_output=True, text=True, timeout=300)
        st = dict(re.findall(r'\] line \d+ (\w+): (SUCCESS|FAILURE)', p.stdout))
        msgs.append('%s: unwidened symbolic havoc %s the last element' % (elt, 'MISSES' if st.get('bug') == 'SUCCESS' else 'covers'))
    # second canary: legacy loop instrumentation self-check artefact on `while (1) { .. break; }` (see @@tool_artefact)
    import tempfile, shutil
    d = tempfile.mkdtemp(prefix='vf_canary_')
    try:
        src2 = os.path.join(HERE, 'canary_truncation.c')
        a, m, b = (os.path.join(d, x) for x in ('a.gb', 'm.gb', 'b.gb'))
        ok2 = subprocess.run(['goto-cc', src2, '--function', 'main', '-o', a], capture_output=True).returncode == 0 \
            and subprocess.run(['goto-instrument', '--apply-loop-contracts', a, m], capture_output=True).returncode == 0 \
            and subprocess.run(['goto-instrument', '--enforce-contract', 'f', m, b], capture_output=True).returncode == 0
        if ok2:
            p = subprocess.run(['cbmc', b], capture_output=True, text=True, timeout=300)
            fails = re.findall(r'\] line \d+ ([^:]+): FAILURE', p.stdout)
            if fails and all(x.strip() == 'Check that loop instrumentation was not truncated' for x in fails):
                msgs.append('legacy while(1)/break loop contract: spurious "instrumentation was not truncated" failure PRESENT (ignored only in units that declare @@tool_artefact truncation-check)')
            elif not fails:
                msgs.append('legacy while(1)/break loop contract: artefact absent')
            else:
                return False, 'truncation canary: unexpected failures %r' % fails
    finally:
        shutil.rmtree(d, ignore_errors=True)
    return True, '; '.join(msgs)


if __name__ == '__main__':
    ok, msg = run()
    print(('canary ok: ' if ok else 'CANARY FAILED: ') + msg)
    sys.exit(0 if ok else 2)
