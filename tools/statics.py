#!/usr/bin/env python3
"""statics.py - static-storage scan for C09 (DESIGN.md C09 (a)).

For every C translation unit of SRC/, CBLAS/ and FORTRAN/ in the *current* tree: compile with
goto-cc, dump the symbol table with goto-instrument --show-symbol-table --json-ui and list every
object with static storage duration that is DEFINED in that TU, is not const-qualified and is not
_Thread_local.  Such an object is shared, mutable library state: two concurrent or consecutive
calls can communicate through it, which is exactly what C09 forbids.  A flagged object is then
looked up in the TU's goto program: if no instruction assigns it and its address is never taken,
it is reported as 'unwritten' (effectively constant) and not counted as a violation.
"""
import concurrent.futures as cf
import json
import os
import re
import shutil
import subprocess
import tempfile

DIRS = ('SRC', 'CBLAS', 'FORTRAN')


def is_const(t):
    ns = t.get('namedSub', {}) if isinstance(t, dict) else {}
    if '#constant' in ns:
        return True
    if t.get('id') == 'array':
        sub = t.get('sub', [])
        if sub:
            return is_const(sub[0])
    return False


def scan_tu(args):
    repo, rel, tmp = args
    src = os.path.join(repo, rel)
    gb = os.path.join(tmp, rel.replace('/', '_') + '.gb')
    inc = ['-I' + os.path.join(repo, 'SRC'), '-I' + os.path.join(repo, 'CBLAS')]
    p = subprocess.run(['goto-cc', '-c'] + inc + [src, '-o', gb], capture_output=True, text=True)
    if p.returncode != 0:
        return rel, None, 'goto-cc failed: ' + p.stderr[-400:]
    p = subprocess.run(['goto-instrument', '--show-symbol-table', '--json-ui', gb], capture_output=True, text=True)
    try:
        data = json.loads(p.stdout)
    except Exception as e:
        return rel, None, 'symbol table not parseable: %s' % e
    found = []
    nsyms = 0
    for el in data:
        if 'symbolTable' not in el:
            continue
        for name, s in el['symbolTable'].items():
            if not s.get('isStaticLifetime'):
                continue
            if name.startswith('__CPROVER') or name.startswith('__') or '$object' in name:
                continue
            if s.get('isExtern') or s.get('isType') or s.get('isMacro'):
                continue
            t = s.get('type', {})
            if t.get('id') == 'code':
                continue
            nsyms += 1
            if s.get('isThreadLocal'):
                continue
            if is_const(t):
                continue
            found.append(name)
    res = []
    if found:
        q = subprocess.run(['goto-instrument', '--show-goto-functions', gb], capture_output=True, text=True).stdout
        for name in found:
            base = re.escape(name)
            written = re.search(r'ASSIGN\s+%s\b' % base, q) or re.search(r'ASSIGN\s+%s\[' % base, q) \
                or re.search(r'address_of\(%s\b' % base, q) or re.search(r'&%s\b' % base, q) \
                or re.search(r'\b%s\s*(\[[^\]]*\])?\s*:=' % base, q)
            res.append((name, bool(written)))
    os.remove(gb)
    return rel, dict(static_objects=nsyms, mutable=res), None


def run(repo):
    tmp = tempfile.mkdtemp(prefix='vf_statics_', dir='/tmp')
    try:
        rels = []
        for d in DIRS:
            dd = os.path.join(repo, d)
            if os.path.isdir(dd):
                rels += [os.path.join(d, f) for f in sorted(os.listdir(dd)) if f.endswith('.c')]
        viol, unwritten, errors = [], [], []
        nstat = 0
        with cf.ThreadPoolExecutor(max_workers=12) as ex:
            for rel, info, err in ex.map(scan_tu, [(repo, r, tmp) for r in rels]):
                if err:
                    errors.append('%s: %s' % (rel, err))
                    continue
                nstat += info['static_objects']
                for name, written in info['mutable']:
                    (viol if written else unwritten).append('%s: mutable static-storage object %s' % (rel, name))
        cov = dict(translation_units=len(rels), static_storage_objects_seen=nstat,
                   mutable_written=len(viol), mutable_never_written=unwritten, compile_errors=errors,
                   explanation='static-storage scan over the goto-cc symbol tables of every C TU in SRC/, CBLAS/, FORTRAN/ of the current tree: '
                               'no non-const, non-thread-local object with static storage duration is defined and written')
        und = None
        # FORTRAN/ bridge files and CBLAS may fail to compile in some configurations: only SRC errors make the scan undecided
        src_err = [e for e in errors if e.startswith('SRC/')]
        if src_err:
            und = 'static scan could not compile: ' + '; '.join(src_err)[:400]
        return dict(violations=viol, coverage=cov, undecided=und)
    finally:
        shutil.rmtree(tmp, ignore_errors=True)


if __name__ == '__main__':
    import sys
    r = run(sys.argv[1] if len(sys.argv) > 1 else '/repo')
    print(json.dumps(r, indent=1))
