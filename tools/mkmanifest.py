#!/usr/bin/env python3
"""Regenerate /verif/MANIFEST.json from contracts/*.spec (which property each unit serves) and
tools/claims.json (level text / notes per property, not_applicable reasons)."""
import json
import os
import sys

HERE = os.path.dirname(os.path.abspath(__file__))
VERIF = os.path.dirname(HERE)
sys.path.insert(0, HERE)
import prove  # noqa: E402

claims = json.load(open(os.path.join(HERE, 'claims.json')))
props = [json.loads(l) for l in open(os.path.join(VERIF, 'properties.jsonl'))]
serving = {}
for fn in sorted(os.listdir(prove.CONTRACT_DIR)):
    if fn.endswith('.spec'):
        sp = prove.parse_spec(os.path.join(prove.CONTRACT_DIR, fn))
        if sp['harness'] and sp.get('status', 'active') == 'active':
            for p in sp['serves']:
                serving.setdefault(p, []).append(sp['unit'])

checks, na = [], []
for p in props:
    pid = p['id']
    c = claims.get(pid, {})
    units = serving.get(pid, [])
    if c.get('not_applicable') or (not units and pid != 'C09') or 'text' not in c:
        na.append(dict(property_id=pid, reason=c.get('not_applicable') or 'no unit under contract serves this property yet'))
        continue
    checks.append(dict(
        property_id=pid,
        quick_cmd='./check %s --tier quick' % pid,
        thorough_cmd='./check %s --tier thorough' % pid,
        evidence_file='/verif/evidence/%s.json' % pid,
        replay_cmd_template='./check %s --replay {path}' % pid,
        engine='cbmc-dfcc',
        level_claimed=dict(category=c.get('category', 'proof'), text=c['text'], design_ref=c.get('design_ref', 'DESIGN.md 6 ' + pid)),
        level_note=c['note'] + ' Units: ' + ', '.join(units) + '.',
        technique=c.get('technique', 'contract-based deductive verification: CBMC 6.11 DFCC function + loop contracts on the real C sources (overlay), SAT back end'),
    ))

man = dict(
    version=1,
    setup_cmd='python3 tools/mkmanifest.py --check',
    hooks=dict(guard='SUPERLU_VERIF',
               enable='-DSUPERLU_VERIF (plus -DUSER_MALLOC/-DUSER_FREE/-DUSER_ABORT, macros the library already honours) on the goto-cc command line of the overlay copy only; /repo carries no hook code',
               baseline_off_cmd='cmake --build /repo/_build -j8 && ctest --test-dir /repo/_build -j8 --timeout 900',
               source_commits=claims.get('_hook_commits', []), add_only=True),
    engines=[dict(name='cbmc-dfcc', path='/verif/check', serves_properties=[c['property_id'] for c in checks],
                  kind_free_text='goto-cc -> goto-instrument --dfcc (enforce/replace contracts, loop contracts) -> cbmc SAT; contracts spliced mechanically into a scratch copy of the real source on every run (tools/overlay.py)')],
    checks=checks,
    notes=claims.get('_notes', ''),
    not_applicable=na,
)
out = os.path.join(VERIF, 'MANIFEST.json')
if '--check' in sys.argv:
    cur = json.load(open(out))
    if cur != man:
        print('MANIFEST.json is stale relative to specs/claims (run tools/mkmanifest.py)')
    for tool in ('cbmc', 'goto-cc', 'goto-instrument'):
        if not any(os.access(os.path.join(d, tool), os.X_OK) for d in os.environ['PATH'].split(':')):
            print('missing tool', tool)
            sys.exit(1)
    print('setup ok')
    sys.exit(0)
json.dump(man, open(out, 'w'), indent=1)
print('wrote', out, 'checks:', [c['property_id'] for c in checks], 'n/a:', [n['property_id'] for n in na])
