/* sp_dgemm (SRC/dsp_blas3.c) - TRANSB is documented but never read (C14; unit sp_dgemm_transb):
 *  the header documents  C := alpha*op(A)*op(B) + beta*C  with TRANSB = 'T' 't' 'C' 'c' meaning op(B) = B', B then being
 *  the n-by-k matrix stored in b(ldb, k), ldb >= n. The code ignores transb: for every value of it, product number j is
 *  handed b + ldb*j with stride 1 (column j of an untransposed k-by-n B) instead of row j of b (start b + j, stride ldb).
 *  Consequences shown here with A 2x2 (CSC), n = 3, k = 2, ldb = 3 (b has exactly ldb*k = 6 doubles on the heap):
 *   (1) wrong result: C != alpha*A*B' + beta*C;
 *   (2) out-of-bounds READ of b: column j = 2 reads b[6], b[7], behind the 6 doubles the documentation asks for
 *       (valgrind: "Invalid read of size 8 ... 0 bytes after a block of size 48 alloc'd").
 * Build: gcc -g -I/repo/SRC findings/sp_gemm_transb_demo.c /repo/_build/SRC/libsuperlu.a -lopenblas -lm
 * Run:   valgrind -q ./a.out
 * Exit 0 iff C equals the documented result alpha*A*B' + beta*C. */
#include <stdio.h>
#include <stdlib.h>
#include <math.h>
#include "slu_ddefs.h"

int main(void)
{
    /* A = [1 2; 3 4] in compressed column storage */
    int m = 2, k = 2, n = 3, ldb = 3, ldc = 2, i, j, l, bad = 0;
    double *av = doubleMalloc(4);
    int_t *ai = intMalloc(4), *ap = intMalloc(3);
    double Ad[2][2] = {{1, 2}, {3, 4}};
    SuperMatrix A;
    /* B is n-by-k = 3-by-2, stored column by column in b(ldb = 3, k = 2): EXACTLY the documented ldb*k doubles */
    double *b = (double *)malloc((size_t)ldb * k * sizeof(double));
    double *c = (double *)malloc((size_t)ldc * n * sizeof(double));
    double Bd[3][2] = {{1, 10}, {2, 20}, {3, 30}};
    double alpha = 1.0, beta = 0.0, want;

    av[0] = 1; av[1] = 3; av[2] = 2; av[3] = 4;
    ai[0] = 0; ai[1] = 1; ai[2] = 0; ai[3] = 1;
    ap[0] = 0; ap[1] = 2; ap[2] = 4;
    dCreate_CompCol_Matrix(&A, m, k, 4, av, ai, ap, SLU_NC, SLU_D, SLU_GE);
    for (j = 0; j < n; j++) for (l = 0; l < k; l++) b[j + l * ldb] = Bd[j][l];
    for (i = 0; i < ldc * n; i++) c[i] = -777.0;   /* beta == 0: C need not be set on input */

    sp_dgemm("N", "T", m, n, k, alpha, &A, b, ldb, beta, c, ldc);

    printf("sp_dgemm(\"N\", \"T\", m=2, n=3, k=2, alpha=1, A, b, ldb=3, beta=0, c, ldc=2)\n");
    for (i = 0; i < m; i++) {
        for (j = 0; j < n; j++) {
            want = 0.0;
            for (l = 0; l < k; l++) want += Ad[i][l] * Bd[j][l];   /* (A * B')(i,j) */
            want = alpha * want;
            printf("  C(%d,%d) = %-10g documented alpha*A*B' = %-6g %s\n", i, j, c[i + j * ldc], want,
                   c[i + j * ldc] == want ? "ok" : "DIFFERS");
            if (!(c[i + j * ldc] == want)) bad++;
        }
    }
    printf("%s: %d of %d entries differ from the documented result\n", bad ? "FINDING REPRODUCED" : "as documented", bad, m * n);
    Destroy_CompCol_Matrix(&A);
    free(b); free(c);
    return bad ? 1 : 0;
}
