/* dgsitrf: an empty panel column arrives while the value array of L is exactly full: lusup[nzlumax] = 0.0 is written
 * (dgsitrf.c "Make a fill-in position if the column is entirely zero": LSUB is grown when needed, LUSUP is not).
 * 3x3, A = [4 1 1; 1 3 0; 0 0 0], natural order, relax = 2 (columns 0,1 = one relaxed supernode, 2 rows x 2 columns = 4 values),
 * ILU_FillFactor 0.8 => nzlumax = 0.8 * 5 = 4: the array is full when column 2 (only entry in the already pivoted row 0) comes out empty. */
#include <stdio.h>
#include <stdlib.h>
#include "slu_ddefs.h"
int main(int argc, char **argv)
{
    int n = 3;
    double fill = argc > 1 ? atof(argv[1]) : 0.8;
    double *a = doubleMalloc(5); int_t *asub = intMalloc(5), *xa = intMalloc(4);
    a[0] = 4.0; asub[0] = 0; a[1] = 1.0; asub[1] = 1; a[2] = 1.0; asub[2] = 0; a[3] = 3.0; asub[3] = 1; a[4] = 1.0; asub[4] = 0;
    xa[0] = 0; xa[1] = 2; xa[2] = 4; xa[3] = 5;
    SuperMatrix A, AC, L, U; superlu_options_t o; SuperLUStat_t stat; GlobalLU_t Glu;
    int *perm_c = int32Malloc(n), *perm_r = int32Malloc(n), *etree = int32Malloc(n); int_t info;
    dCreate_CompCol_Matrix(&A, n, n, 5, a, asub, xa, SLU_NC, SLU_D, SLU_GE);
    ilu_set_default_options(&o); o.ColPerm = NATURAL; o.ILU_FillFactor = fill;
    StatInit(&stat);
    for (int i = 0; i < n; i++) perm_c[i] = i;
    sp_preorder(&o, &A, perm_c, etree, &AC);
    printf("etree %d %d %d\n", etree[0], etree[1], etree[2]);
    dgsitrf(&o, &AC, 2, 2, etree, NULL, 0, perm_c, perm_r, &L, &U, &Glu, &stat, &info);
    printf("info = %d, nzlumax = %d nzlmax = %d\n", (int)info, (int)Glu.nzlumax, (int)Glu.nzlmax);
    return 0;
}
