/* dgstrf: when storage runs out in the MIDDLE of the factorization (a caller workspace that is large enough for the
 * initial allocation but not for the fill), the routine returns info > n straight from the main loop without
 * releasing what it allocated itself (iperm_c, relax_end, xplore/xprune, ...): C19 "nothing of its own still allocated".
 * 2000 x 2000 matrix with dense last row/column (fill grows), expert driver, lwork chosen inside the window.
 * Run under valgrind --leak-check=full: blocks allocated in dgstrf (int32Malloc / intMalloc) are definitely lost.
 * Build: cc dgstrf_leak_demo.c <build>/SRC/libsuperlu.a -I<repo>/SRC -lopenblas -lm ; argv[1] = lwork (default scans). */
#include <stdio.h>
#include <stdlib.h>
#include <string.h>
#include "slu_ddefs.h"

static int_t run(int_t lwork, void *work)
{
    int n = 400; int_t nnz = 0, k = 0;
    double *a = doubleMalloc(3 * n + 2 * n), *rhs = doubleMalloc(n), *x = doubleMalloc(n);
    int_t *asub = intMalloc(5 * n), *xa = intMalloc(n + 1);
    for (int j = 0; j < n; j++) {                       /* arrow matrix, natural order => U fills completely */
        xa[j] = k;
        if (j == 0) { for (int i = 0; i < n; i++) { asub[k] = i; a[k++] = (i == 0) ? n : 1.0; } }
        else { asub[k] = 0; a[k++] = 1.0; asub[k] = j; a[k++] = n; }
        rhs[j] = 1.0;
    }
    xa[n] = k; nnz = k;
    SuperMatrix A, L, U, B, X; superlu_options_t o; SuperLUStat_t stat; GlobalLU_t Glu; mem_usage_t mu;
    int *perm_c = int32Malloc(n), *perm_r = int32Malloc(n), *etree = int32Malloc(n);
    double *R = doubleMalloc(n), *C = doubleMalloc(n), rpg, rcond, ferr[1], berr[1]; char equed[1]; int_t info;
    dCreate_CompCol_Matrix(&A, n, n, nnz, a, asub, xa, SLU_NC, SLU_D, SLU_GE);
    dCreate_Dense_Matrix(&B, n, 1, rhs, n, SLU_DN, SLU_D, SLU_GE);
    dCreate_Dense_Matrix(&X, n, 1, x, n, SLU_DN, SLU_D, SLU_GE);
    set_default_options(&o); o.Equil = NO; o.ColPerm = NATURAL; o.IterRefine = NOREFINE; o.ConditionNumber = NO; o.PivotGrowth = NO;
    StatInit(&stat);
    dgssvx(&o, &A, perm_c, perm_r, etree, equed, R, C, &L, &U, work, lwork, &B, &X, &rpg, &rcond, ferr, berr, &Glu, &mu, &stat, &info);
    StatFree(&stat);
    if (info == 0) { Destroy_SuperMatrix_Store(&L); Destroy_SuperMatrix_Store(&U); }
    Destroy_CompCol_Matrix(&A); Destroy_SuperMatrix_Store(&B); Destroy_SuperMatrix_Store(&X);
    SUPERLU_FREE(rhs); SUPERLU_FREE(x); SUPERLU_FREE(perm_c); SUPERLU_FREE(perm_r); SUPERLU_FREE(etree); SUPERLU_FREE(R); SUPERLU_FREE(C);
    return info;
}

int main(int argc, char **argv)
{
    static double buf[1 << 20];
    if (argc > 1) { int_t lw = atol(argv[1]); printf("lwork %lld: info %lld\n", (long long)lw, (long long)run(lw, buf)); return 0; }
    for (int_t lw = 200000; lw <= 4000000; lw += 100000) printf("lwork %lld: info %lld\n", (long long)lw, (long long)run(lw, buf));
    return 0;
}
