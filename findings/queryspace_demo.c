/* dQuerySpace multiplies the stored-entry counts by sizeof(double)/sizeof(int) in `int` arithmetic: with 32-bit int_t
 * the products overflow for >= 2^28 stored values of L (2^29 subscripts, ~1.8e8 entries of U) and the reported memory
 * usage is negative / garbage (C07: "reported ... memory usage describe the factors actually returned").
 * Only the three counts are read, so the demo passes headers with large counts and no arrays behind them. */
#include <stdio.h>
#include "slu_ddefs.h"
int main(void)
{
    SuperMatrix L, U; SCformat Ls; NCformat Us; mem_usage_t mu;
    int_t lval_ptr[2] = {0, 300000000}, lsub_ptr[2] = {0, 300000000}, ucol_ptr[2] = {0, 200000000};
    L.Stype = SLU_SC; L.nrow = L.ncol = 1; L.Store = &Ls; Ls.nzval_colptr = lval_ptr; Ls.rowind_colptr = lsub_ptr;
    U.Stype = SLU_NC; U.nrow = U.ncol = 1; U.Store = &Us; Us.colptr = ucol_ptr;
    dQuerySpace(&L, &U, &mu);
    double expect = 300000000.0 * 8 + 300000000.0 * 4 + 200000000.0 * 12;
    printf("for_lu = %.4g bytes (expected about %.4g)\n", mu.for_lu, expect);
    return !(mu.for_lu > 0.99 * expect && mu.for_lu < 1.01 * expect);
}
