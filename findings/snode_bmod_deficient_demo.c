/* relaxed supernode with fewer rows than columns: 4x4, columns 0..2 have their only entries in row 0 */
#include <stdio.h>
#include "slu_ddefs.h"
int main(void)
{
    int n = 4, nnz = 4, info, i;
    double *a = doubleMalloc(nnz); int *asub = intMalloc(nnz), *xa = intMalloc(n + 1);
    /* col0: (0,0)  col1: (0,1)  col2: (0,2)  col3: (3,3) */
    a[0] = 1; asub[0] = 0; a[1] = 2; asub[1] = 0; a[2] = 3; asub[2] = 0; a[3] = 4; asub[3] = 3;
    xa[0] = 0; xa[1] = 1; xa[2] = 2; xa[3] = 3; xa[4] = 4;
    SuperMatrix A, L, U, B; superlu_options_t options; SuperLUStat_t stat;
    double *rhs = doubleMalloc(n); for (i = 0; i < n; i++) rhs[i] = 1.0;
    int *perm_r = intMalloc(n), *perm_c = intMalloc(n);
    dCreate_CompCol_Matrix(&A, n, n, nnz, a, asub, xa, SLU_NC, SLU_D, SLU_GE);
    dCreate_Dense_Matrix(&B, n, 1, rhs, n, SLU_DN, SLU_D, SLU_GE);
    set_default_options(&options); options.ColPerm = NATURAL;
    StatInit(&stat);
    dgssv(&options, &A, perm_c, perm_r, &L, &U, &B, &stat, &info);
    printf("info = %d\n", info);
    return 0;
}
