/* Fortran bridge c_fortran_dgssv_: a factor request (iopt = 1) during which dgstrf runs out of memory (info > n)
 * still parks L and U - whose stores were never created - in the handle; the free request (iopt = 3) then hands them
 * to Destroy_SuperNode_Matrix / Destroy_CompCol_Matrix, which free uninitialised pointers (C20: "a free request
 * releases everything the handle owns"; C19: every block freed exactly once).
 * Build (the bridge is not part of libsuperlu.a when enable_fortran=OFF):
 *   cc fortran_bridge_demo.c <repo>/FORTRAN/c_fortran_dgssv.c <build>/SRC/libsuperlu.a -I<repo>/SRC \
 *      -Wl,--wrap=superlu_malloc -lopenblas -lm
 * Run under valgrind: "Conditional jump or move depends on uninitialised value" / "Invalid free" inside iopt = 3.
 * Exit 0 = handle released cleanly; the unchanged code crashes or is flagged by valgrind (exit 9 with --error-exitcode=9). */
#include <stdio.h>
#include <stdlib.h>
#include "slu_ddefs.h"
typedef long long fptr;
void c_fortran_dgssv_(int *iopt, int *n, int_t *nnz, int *nrhs, double *values, int_t *rowind, int_t *colptr,
                      double *b, int *ldb, fptr *f_factors, int_t *info);
static size_t fail_above = (size_t)-1;
void *__real_superlu_malloc(size_t);
void *__wrap_superlu_malloc(size_t n) { return n > fail_above ? NULL : __real_superlu_malloc(n); }

int main(void)
{
    int n = 5, nrhs = 1, ldb = 5, iopt;
    int_t nnz = 12, info = 0;
    double v[] = {19, 12, 12, 21, 12, 12, 21, 16, 21, 5, 21, 18};
    int_t ri[] = {1, 2, 5, 1, 2, 3, 1, 3, 5, 4, 4, 5};      /* 1-based, Fortran style */
    int_t cp[] = {1, 4, 7, 10, 11, 13};
    double b[] = {1, 1, 1, 1, 1};
    fptr h = 0;
    fail_above = 2000;          /* the L/U value arrays (fill estimate * nnz doubles) cannot be allocated, small arrays can */
    iopt = 1; c_fortran_dgssv_(&iopt, &n, &nnz, &nrhs, v, ri, cp, b, &ldb, &h, &info);
    printf("factor request: info = %lld (%s)\n", (long long)info, info > n ? "memory failure" : "completed");
    fail_above = (size_t)-1;
    iopt = 3; c_fortran_dgssv_(&iopt, &n, &nnz, &nrhs, v, ri, cp, b, &ldb, &h, &info);
    printf("free request returned\n");
    return 0;
}
