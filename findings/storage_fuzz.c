/* Search harness: factor pseudo-random sparse matrices with dgstrf under many
 * storage regimes and compare everything returned against a reference run
 * (malloc mode, generous fill estimate). */
#include <stdio.h>
#include <stdlib.h>
#include <string.h>
#include <stdint.h>
#include "slu_ddefs.h"

static int g_fill = 30, g_panel = 20, g_relax = 10, g_maxsuper = 200;
int sp_ienv(int ispec)
{
    switch (ispec) {
    case 1: return g_panel;
    case 2: return g_relax;
    case 3: return g_maxsuper;
    case 4: return 200;
    case 5: return 100;
    case 6: return g_fill;
    case 7: return 10;
    }
    return 0;
}

static uint64_t rng_s;
static unsigned rnd(void) { rng_s = rng_s * 6364136223846793005ULL + 1442695040888963407ULL; return (unsigned)(rng_s >> 33); }
static double rndd(void) { return (double)(rnd() % 20001) / 10000.0 - 1.0; }

typedef struct { size_t len, cap; unsigned char *p; } buf_t;
static void put(buf_t *b, const void *src, size_t n)
{
    if (b->len + n > b->cap) { b->cap = (b->len + n) * 2 + 64; b->p = realloc(b->p, b->cap); }
    memcpy(b->p + b->len, src, n); b->len += n;
}

/* returns info; serialises the outcome into out */
static int_t factor(int n, int_t nnz, double *a, int_t *asub, int_t *xa, colperm_t cp,
                    int fill, void *work, int_t lwork, buf_t *out, int *nexp)
{
    SuperMatrix A, AC, L, U;
    superlu_options_t options;
    SuperLUStat_t stat;
    GlobalLU_t Glu;
    mem_usage_t mu;
    int *perm_c = int32Malloc(n), *perm_r = int32Malloc(n), *etree = int32Malloc(n);
    int_t info;

    g_fill = fill;
    set_default_options(&options);
    options.ColPerm = cp;
    dCreate_CompCol_Matrix(&A, n, n, nnz, a, asub, xa, SLU_NC, SLU_D, SLU_GE);
    StatInit(&stat);
    get_perm_c(cp, &A, perm_c);
    sp_preorder(&options, &A, perm_c, etree, &AC);
    dgstrf(&options, &AC, sp_ienv(2), sp_ienv(1), etree, work, lwork, perm_c, perm_r,
           &L, &U, &Glu, &stat, &info);
    *nexp = stat.expansions;
    out->len = 0;
    put(out, &info, sizeof info);
    if (info == 0) {
        SCformat *Ls = L.Store; NCformat *Us = U.Store;
        put(out, perm_c, n * sizeof(int));
        put(out, perm_r, n * sizeof(int));
        put(out, &Ls->nnz, sizeof(int_t));
        put(out, &Ls->nsuper, sizeof(int));
        put(out, Ls->nzval_colptr, (n + 1) * sizeof(int_t));
        put(out, Ls->nzval, Ls->nzval_colptr[n] * sizeof(double));
        put(out, Ls->rowind_colptr, (n + 1) * sizeof(int_t));
        put(out, Ls->rowind, Ls->rowind_colptr[n] * sizeof(int_t));
        put(out, Ls->col_to_sup, n * sizeof(int));
        put(out, Ls->sup_to_col, (Ls->nsuper + 2) * sizeof(int));
        put(out, &Us->nnz, sizeof(int_t));
        put(out, Us->colptr, (n + 1) * sizeof(int_t));
        put(out, Us->rowind, Us->colptr[n] * sizeof(int_t));
        put(out, Us->nzval, Us->colptr[n] * sizeof(double));
        dQuerySpace(&L, &U, &mu);
        put(out, &mu.for_lu, sizeof(float));
        put(out, &mu.total_needed, sizeof(float));
    }
    if (info == 0 || info <= n) {
        if (lwork == 0) { Destroy_SuperNode_Matrix(&L); Destroy_CompCol_Matrix(&U); }
        else { Destroy_SuperMatrix_Store(&L); Destroy_SuperMatrix_Store(&U); }
    }
    Destroy_CompCol_Permuted(&AC);
    Destroy_SuperMatrix_Store(&A);
    StatFree(&stat);
    SUPERLU_FREE(perm_c); SUPERLU_FREE(perm_r); SUPERLU_FREE(etree);
    return info;
}

int main(int argc, char **argv)
{
    int seed0 = argc > 1 ? atoi(argv[1]) : 1, seed1 = argc > 2 ? atoi(argv[2]) : 200;
    int verbose = argc > 3;
    int bad = 0, total = 0, seed;
    buf_t ref = {0}, got = {0};
    size_t wcap = 8u << 20;
    char *wraw = malloc(wcap + 16);
    char *w8 = (char *)(((uintptr_t)wraw + 7) & ~(uintptr_t)7);

    for (seed = seed0; seed <= seed1; ++seed) {
        int n, i, j, kind, nexp;
        int_t nnz = 0, cap;
        double dens;
        double *a; int_t *asub, *xa;
        colperm_t cp;
        static const int fills[] = {1, 2, 3, 5};
        int fi, mode;

        rng_s = 0x9E3779B97F4A7C15ULL * (uint64_t)seed + 12345;
        n = 4 + rnd() % 60;
        kind = rnd() % 4;
        dens = (1 + rnd() % 30) / 100.0;
        cp = (rnd() % 2) ? NATURAL : COLAMD;
        g_panel = 1 + rnd() % 8;
        g_relax = 1 + rnd() % 8;
        g_maxsuper = 2 + rnd() % 30;
        cap = (int_t)n * n;
        a = doubleMalloc(cap); asub = intMalloc(cap); xa = intMalloc(n + 1);
        for (j = 0; j < n; ++j) {
            xa[j] = nnz;
            for (i = 0; i < n; ++i) {
                int on = 0;
                if (i == j) on = 1;
                else if (kind == 0) on = (rnd() % 10000) < dens * 10000;
                else if (kind == 1) on = (i == 0 || j == 0 || i == n - 1 || (rnd() % 100) < 3);
                else if (kind == 2) on = (abs(i - j) <= 2) || (rnd() % 100) < 4;
                else on = (i < 6 && j < n) || (j < 6) || (rnd() % 100) < 2;
                if (on) { asub[nnz] = i; a[nnz] = (i == j) ? 4.0 + rndd() : rndd(); ++nnz; }
            }
        }
        xa[n] = nnz;

        if (factor(n, nnz, a, asub, xa, cp, 200, NULL, 0, &ref, &nexp) != 0) goto next;
        for (fi = 0; fi < 4; ++fi) {
            for (mode = 0; mode < 4; ++mode) {
                void *work = NULL; int_t lwork = 0, info;
                if (mode == 1) { work = w8; lwork = wcap; }
                if (mode == 2) { work = w8 + 4; lwork = wcap; }
                if (mode == 3) { work = w8; lwork = wcap - 4; }
                if (work) memset(work, 0xA5, lwork);
                info = factor(n, nnz, a, asub, xa, cp, fills[fi], work, lwork, &got, &nexp);
                ++total;
                if (got.len != ref.len || memcmp(got.p, ref.p, ref.len)) {
                    ++bad;
                    printf("MISMATCH seed %d n %d nnz %d kind %d cp %d panel %d relax %d maxsuper %d fill %d mode %d info %d nexp %d\n",
                           seed, n, (int)nnz, kind, (int)cp, g_panel, g_relax, g_maxsuper, fills[fi], mode, (int)info, nexp);
                } else if (verbose) {
                    printf("ok seed %d n %d fill %d mode %d nexp %d\n", seed, n, fills[fi], mode, nexp);
                }
            }
        }
next:
        SUPERLU_FREE(a); SUPERLU_FREE(asub); SUPERLU_FREE(xa);
    }
    printf("%d runs, %d mismatches\n", total, bad);
    free(wraw);
    return bad != 0;
}
