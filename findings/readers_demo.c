/* Symmetric input WITHOUT stored diagonal entries (the property C16 says "whether or not diagonal entries are
 * present"): n = 3, strictly lower triangle (2,1) (3,1) (3,2).  Full matrix has 6 entries.
 *   Matrix Market reader dreadMM : allocated 2*nonz - n = 3 entries and wrote 6  -> heap overflow
 *   Harwell-Boeing FormFullA     : allocated 2*nnz  - n = 3 entries, wrote 6, reported nnz = 3
 * Build: cc readers_demo.c <repo>/_build/SRC/libsuperlu.a -I<repo>/SRC -lopenblas -lm ; run under valgrind or ASan.
 * Exit 0: both readers return the full 6-entry matrix with consistent pointers. */
#include <stdio.h>
#include <stdlib.h>
#include "slu_ddefs.h"

static int check(const char *who, int n, int_t nnz, double *a, int_t *asub, int_t *xa)
{
    int bad = 0;
    printf("%s: n=%d nnz=%lld colptr[n]=%lld\n", who, n, (long long)nnz, (long long)xa[n]);
    if (nnz != 6 || xa[n] != 6) bad = 1;
    for (int j = 0; j < n && !bad; j++)
        for (int_t k = xa[j]; k < xa[j + 1]; k++)
            if (asub[k] == j || asub[k] < 0 || asub[k] >= n) bad = 1;
    printf("%s: %s\n", who, bad ? "WRONG" : "ok");
    return bad;
}

int main(void)
{
    int bad = 0;
    {   /* Matrix Market */
        FILE *fp = tmpfile();
        fputs("%%MatrixMarket matrix coordinate real symmetric\n3 3 3\n2 1 1.5\n3 1 2.5\n3 2 3.5\n", fp);
        rewind(fp);
        int m, n; int_t nnz; double *a; int_t *asub, *xa;
        dreadMM(fp, &m, &n, &nnz, &a, &asub, &xa);
        bad |= check("dreadMM", n, nnz, a, asub, xa);
        fclose(fp);
    }
    {   /* Harwell-Boeing, type RSA, lower triangle without diagonal */
        FILE *fp = tmpfile();
        fprintf(fp, "%-72s%-8s\n", "symmetric, lower triangle stored without diagonal", "demo");
        fprintf(fp, "%14d%14d%14d%14d%14d\n", 3, 1, 1, 1, 0);
        fprintf(fp, "%3s%11s%14d%14d%14d%14d\n", "RSA", "", 3, 3, 3, 0);
        fprintf(fp, "%-16s%-16s%-20s%-20s\n", "(4I5)", "(3I5)", "(3E15.7)", "");
        fprintf(fp, "%5d%5d%5d%5d\n", 1, 3, 4, 4);
        fprintf(fp, "%5d%5d%5d\n", 2, 3, 3);
        fprintf(fp, "%15.7E%15.7E%15.7E\n", 1.5, 2.5, 3.5);
        rewind(fp);
        int m, n; int_t nnz; double *a; int_t *asub, *xa;
        dreadhb(fp, &m, &n, &nnz, &a, &asub, &xa);
        bad |= check("dreadhb", n, nnz, a, asub, xa);
        fclose(fp);
    }
    return bad;
}
