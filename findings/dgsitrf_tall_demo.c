/* dgsitrf is documented for "a general sparse m-by-n matrix" (lower trapezoidal L if A->nrow > A->ncol), but its
 * row-swap bookkeeping swap[]/iswap[] is allocated with n entries and indexed with ROW numbers (< m) in ilu_dpivotL
 * (iswap[*pivrow], swap[...]): for m > n a pivot in a row >= n reads and writes past the end of iswap[].
 * 3x2, A = [1 0; 0 1; 5 1]: column 0 pivots on row 2 (largest), 2 >= n.   Run under valgrind / ASan.
 * build: gcc -g -I/repo/SRC dgsitrf_tall_demo.c /repo/_build/SRC/libsuperlu.a -lopenblas -lm */
#include <stdio.h>
#include <stdlib.h>
#include "slu_ddefs.h"
int main(void)
{
    int m = 3, n = 2;
    double *a = doubleMalloc(4); int_t *asub = intMalloc(4), *xa = intMalloc(3);
    a[0] = 1.0; asub[0] = 0; a[1] = 5.0; asub[1] = 2; a[2] = 1.0; asub[2] = 1; a[3] = 1.0; asub[3] = 2;
    xa[0] = 0; xa[1] = 2; xa[2] = 4;
    SuperMatrix A, AC, L, U; superlu_options_t o; SuperLUStat_t stat; GlobalLU_t Glu;
    int *perm_c = int32Malloc(n), *perm_r = int32Malloc(m), *etree = int32Malloc(n); int_t info;
    dCreate_CompCol_Matrix(&A, m, n, 4, a, asub, xa, SLU_NC, SLU_D, SLU_GE);
    ilu_set_default_options(&o); o.ColPerm = NATURAL; o.DiagPivotThresh = 1.0;
    StatInit(&stat);
    for (int i = 0; i < n; i++) perm_c[i] = i;
    sp_preorder(&o, &A, perm_c, etree, &AC);
    dgsitrf(&o, &AC, 1, 1, etree, NULL, 0, perm_c, perm_r, &L, &U, &Glu, &stat, &info);
    printf("info = %d perm_r = %d %d %d\n", (int)info, perm_r[0], perm_r[1], perm_r[2]);
    return 0;
}
