/* dStackCompress (SRC/dmemory.c): the compacted lsub is placed at ucol + xusub[n]*sizeof(int) although ucol holds
 * xusub[n] DOUBLES: lsub overwrites the upper half of the just-compacted ucol (iword instead of dword, line 672).
 * The function has no in-tree caller (the call in dLUWorkFree is commented out) but is an exported entry point of the
 * workspace memory model.  Layout in a caller workspace: [lusup | gap | ucol | gap | lsub | gap | usub].
 * build: gcc -g -I/repo/SRC stackcompress_demo.c /repo/_build/SRC/libsuperlu.a -lopenblas -lm ; exit 1 = ucol corrupted */
#include <stdio.h>
#include <string.h>
#include "slu_ddefs.h"
int main(void)
{
    static double work[64];
    GlobalLU_t Glu; memset(&Glu, 0, sizeof Glu);
    int_t xlusup[3] = {0, 1, 2}, xusub[3] = {0, 2, 4}, xlsub[3] = {0, 1, 3};
    int i, bad = 0;
    Glu.n = 2; Glu.xlusup = xlusup; Glu.xusub = xusub; Glu.xlsub = xlsub;
    Glu.lusup = work;                       /* 2 values  */
    Glu.ucol  = work + 4;                   /* 4 values, gap of 2 doubles in front */
    Glu.lsub  = (int_t *)(work + 10);       /* 3 indices */
    Glu.usub  = (int_t *)(work + 14);       /* 4 indices */
    Glu.stack.array = work; Glu.stack.size = sizeof work; Glu.stack.top1 = 16 * sizeof(double); Glu.stack.used = Glu.stack.top1;
    ((double *)Glu.lusup)[0] = 1; ((double *)Glu.lusup)[1] = 2;
    for (i = 0; i < 4; i++) ((double *)Glu.ucol)[i] = 10.5 + i;
    for (i = 0; i < 3; i++) Glu.lsub[i] = 100 + i;
    for (i = 0; i < 4; i++) Glu.usub[i] = 200 + i;
    dStackCompress(&Glu);
    for (i = 0; i < 4; i++) if (((double *)Glu.ucol)[i] != 10.5 + i) { printf("ucol[%d] = %g, was %g\n", i, ((double *)Glu.ucol)[i], 10.5 + i); bad = 1; }
    for (i = 0; i < 3; i++) if (Glu.lsub[i] != 100 + i) { printf("lsub[%d] = %d\n", i, (int)Glu.lsub[i]); bad = 1; }
    for (i = 0; i < 4; i++) if (Glu.usub[i] != 200 + i) { printf("usub[%d] = %d\n", i, (int)Glu.usub[i]); bad = 1; }
    if ((char *)Glu.lsub != (char *)Glu.ucol + 4 * sizeof(double)) { printf("lsub starts %ld bytes after ucol, 4 doubles need 32\n", (long)((char *)Glu.lsub - (char *)Glu.ucol)); bad = 1; }
    printf(bad ? "FINDING REPRODUCED\n" : "ok\n");
    return bad;
}
