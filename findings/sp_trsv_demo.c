/* sp_dtrsv with an empty (0 x 0) factor: the quick returns came after doubleCalloc(L->nrow) and did not free it
 * (C19: nothing of the library's own may stay allocated). Run under valgrind --leak-check=full --error-exitcode=9:
 * the unchanged code loses one block per call. Exit 0 here always; valgrind decides. */
#include <stdio.h>
#include <stdlib.h>
#include "slu_ddefs.h"
int main(void)
{
    SuperMatrix L, U; SuperLUStat_t stat; int info = 7;
    static SCformat Ls; static NCformat Us;      /* empty stores: nrow == 0 returns before any array is touched */
    L.Stype = SLU_SC; L.Dtype = SLU_D; L.Mtype = SLU_TRLU; L.nrow = L.ncol = 0; L.Store = &Ls; Ls.nsuper = -1;
    U.Stype = SLU_NC; U.Dtype = SLU_D; U.Mtype = SLU_TRU;  U.nrow = U.ncol = 0; U.Store = &Us;
    StatInit(&stat);
    double x[1] = {0};
    sp_dtrsv("L", "N", "U", &L, &U, x, &stat, &info);
    sp_dtrsv("U", "N", "N", &L, &U, x, &stat, &info);
    sp_dtrsv("L", "T", "U", &L, &U, x, &stat, &info);
    sp_dtrsv("U", "T", "N", &L, &U, x, &stat, &info);
    printf("info %d\n", info);
    StatFree(&stat);
    return 0;
}
