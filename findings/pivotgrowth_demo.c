/* dPivotGrowth on the leading columns of a singular factorization (C12, C19): for a column of L that has fewer
 * stored rows than its position in the supernode (structurally deficient: e.g. an empty last column, nsupr == 0)
 * the U-part scan `for (i = 0; i < nz_in_U; ++i) luval[i]` reads past the column - past the end of L's value array
 * when it is the last one. The expert driver calls dPivotGrowth(info, ...) exactly in that situation.
 * 3 x 3 matrix whose last column is structurally empty. Run under valgrind: "Invalid read" in dPivotGrowth. */
#include <stdio.h>
#include <stdlib.h>
#include "slu_ddefs.h"
int main(void)
{
    int n = 3; int_t nnz = 4, info;
    double *a = doubleMalloc(nnz); int_t *asub = intMalloc(nnz), *xa = intMalloc(n + 1);
    /* columns: {(0,0)=2,(1,0)=1}, {(1,1)=3,(2,1)=1}, {} */
    a[0] = 2; a[1] = 1; a[2] = 3; a[3] = 1; asub[0] = 0; asub[1] = 1; asub[2] = 1; asub[3] = 2;
    xa[0] = 0; xa[1] = 2; xa[2] = 4; xa[3] = 4;
    double *rhs = doubleMalloc(n), *x = doubleMalloc(n); rhs[0] = rhs[1] = rhs[2] = 1;
    SuperMatrix A, L, U, B, X; superlu_options_t o; SuperLUStat_t stat; GlobalLU_t Glu; mem_usage_t mu;
    int perm_c[3], perm_r[3], etree[3]; char equed[1]; double R[3], C[3], rpg = -1, rcond, ferr[1], berr[1];
    dCreate_CompCol_Matrix(&A, n, n, nnz, a, asub, xa, SLU_NC, SLU_D, SLU_GE);
    dCreate_Dense_Matrix(&B, n, 1, rhs, n, SLU_DN, SLU_D, SLU_GE);
    dCreate_Dense_Matrix(&X, n, 1, x, n, SLU_DN, SLU_D, SLU_GE);
    set_default_options(&o); o.Equil = NO; o.ColPerm = NATURAL; o.PivotGrowth = YES;
    StatInit(&stat);
    dgssvx(&o, &A, perm_c, perm_r, etree, equed, R, C, &L, &U, NULL, 0, &B, &X, &rpg, &rcond, ferr, berr, &Glu, &mu, &stat, &info);
    printf("info = %lld, reciprocal pivot growth of the leading columns = %g\n", (long long)info, rpg);
    StatFree(&stat);
    if (info >= 0 && info <= n) { Destroy_SuperNode_Matrix(&L); Destroy_CompCol_Matrix(&U); }
    Destroy_CompCol_Matrix(&A); Destroy_SuperMatrix_Store(&B); Destroy_SuperMatrix_Store(&X); SUPERLU_FREE(rhs); SUPERLU_FREE(x);
    return 0;
}
