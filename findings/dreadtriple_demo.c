/* ?readtriple (triplet-file reader on stdin): the scratch array val[] is obtained with a bare SUPERLU_MALLOC whose
 * result was not tested before fix 70ab572, while every other block of the routine comes from doubleMalloc / intMalloc / int32Malloc,
 * which ABORT with a message when the allocator returns NULL (the documented reaction of the readers to memory
 * shortage). When exactly that allocation fails, the read loop hands &val[0] == NULL to scanf("%d%d%lf\n", ...):
 * a NULL store (SIGSEGV) instead of the clean ABORT (C19: no memory error on any path; C16: a reader either delivers
 * the matrix or stops with a diagnostic).
 *
 * Allocator hook: -Wl,--wrap=superlu_malloc routes every SUPERLU_MALLOC issued from another object file than
 * memory.o (dreadtriple.o: val[];  dmemory.o: doubleMalloc -> nzval[]) through __wrap_superlu_malloc below, which
 * fails the k-th such request. (int32Malloc/intMalloc call superlu_malloc inside memory.o and are not wrapped; they
 * test their result anyway.)  k = 1: nzval[] in doubleMalloc -> clean ABORT.  k = 2: val[] -> NULL store.
 *
 * Repaired by commit 70ab572 ("?readtriple tests the allocation of val[] like the other readers"); this demo PASSES (exit 0)
 * on the current tree and reproduces the defect on the pre-fix source  git -C <repo> show 70ab572^:SRC/dreadtriple.c .
 * The reader under test is compiled from source on the command line (it takes precedence over the archive member):
 * Build, current tree:  cc dreadtriple_demo.c <repo>/SRC/dreadtriple.c <build>/SRC/libsuperlu.a -I<repo>/SRC \
 *                          -Wl,--wrap=superlu_malloc -lopenblas -lm            (here: <repo> = /repo, <build> = /repo/_build)
 * Build, pre-fix:       git -C <repo> show 70ab572^:SRC/dreadtriple.c > /tmp/dreadtriple_prefix.c ; same command with that file
 * Run:    ./a.out       every child process reads the same 3 x 3, 4-entry triplet file on its stdin
 * Pre-fix code:  "k=2: allocation 2 fails -> killed by signal 11", last line "DEFECT reproduced", exit status 1.
 * Current code:  every failing k ends in the ABORT message (process exit 255), last line "all allocation failures end in ABORT", exit 0. */
#include <stdio.h>
#include <stdlib.h>
#include <string.h>
#include <unistd.h>
#include <sys/wait.h>
#include "slu_ddefs.h"

static int fail_at = 0, seen = 0;
void *__real_superlu_malloc(size_t);
void *__wrap_superlu_malloc(size_t n) { return (++seen == fail_at) ? NULL : __real_superlu_malloc(n); }

static const char *triplets = "3 4\n1 1 4.0\n2 2 5.0\n3 3 6.0\n3 1 -1.0\n";

static int child(int k)
{
    char path[] = "/tmp/dreadtriple_demo_XXXXXX";
    int fd = mkstemp(path);
    if (fd < 0 || write(fd, triplets, strlen(triplets)) < 0) return 3;
    close(fd);
    if (!freopen(path, "r", stdin)) return 3;
    unlink(path);
    int m = 0, n = 0; int_t nonz = 0; double *a = NULL; int_t *asub = NULL, *xa = NULL;
    fail_at = k; seen = 0;
    dreadtriple(&m, &n, &nonz, &a, &asub, &xa);
    fail_at = 0;
    /* only reached when no allocation failed: the matrix must be complete */
    if (m != 3 || n != 3 || nonz != 4 || xa[0] != 0 || xa[1] != 2 || xa[2] != 3 || xa[3] != 4 || a[xa[1]] != 5.0) return 4;
    return 0;
}

int main(void)
{
    int bad = 0;
    for (int k = 0; k <= 2; k++) {          /* k = 0: no failure (reference run) */
        fflush(stdout);
        pid_t p = fork();
        if (p == 0) _exit(child(k));
        int st = 0;
        waitpid(p, &st, 0);
        if (WIFSIGNALED(st)) {
            printf("k=%d: allocation %d fails -> killed by signal %d (NULL store through the unchecked val[])\n", k, k, WTERMSIG(st));
            bad = 1;
        } else if (k == 0) {
            printf("k=0: no failure -> exit %d (%s)\n", WEXITSTATUS(st), WEXITSTATUS(st) == 0 ? "matrix read correctly" : "WRONG");
            bad |= WEXITSTATUS(st) != 0;
        } else {
            /* superlu_abort_and_exit: message on stderr, exit(-1) */
            printf("k=%d: allocation %d fails -> process exit %d (%s)\n", k, k, WEXITSTATUS(st),
                   WEXITSTATUS(st) == 255 ? "clean ABORT" : "UNEXPECTED: the reader returned");
            bad |= WEXITSTATUS(st) != 255;
        }
    }
    printf(bad ? "DEFECT reproduced\n" : "all allocation failures end in ABORT\n");
    return bad;
}
