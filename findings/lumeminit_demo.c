/* dLUMemInit, caller workspace too small for the initial estimate (C08): the halving retry loop released the SUM of
 * the four array requests even when some of them had failed, so stack.top1 / stack.used went negative and the next
 * round handed out addresses BEFORE work[]: the factorization then writes in front of the caller's buffer.
 * 2000 x 2000 tridiagonal system, expert driver with lwork swept over 1.5 .. 4.5 MB; work[] sits between two guard
 * zones. Exit 0 iff for every lwork the guards are intact and the call either solves the system or reports info > n.
 * Build: cc lumeminit_demo.c <build>/SRC/libsuperlu.a -I<repo>/SRC -lopenblas -lm */
#include <stdio.h>
#include <stdlib.h>
#include <string.h>
#include <math.h>
#include "slu_ddefs.h"
#define GUARD (1 << 20)

int main(void)
{
    int n = 2000, bad = 0, solved = 0, refused = 0;
    int_t nnz = 3 * n - 2;
    size_t cap = 5u << 20;
    unsigned char *raw = malloc(cap + 2 * GUARD + 16);
    unsigned char *work = (unsigned char *)(((size_t)raw + GUARD + 7) & ~(size_t)7);
    for (int_t lwork = 1500000; lwork <= 4500000; lwork += 100000) {
        double *a = doubleMalloc(nnz), *rhs = doubleMalloc(n), *x = doubleMalloc(n);
        int_t *asub = intMalloc(nnz), *xa = intMalloc(n + 1), k = 0;
        for (int j = 0; j < n; j++) {
            xa[j] = k;
            if (j > 0) { asub[k] = j - 1; a[k++] = -1.0; }
            asub[k] = j; a[k++] = 4.0;
            if (j < n - 1) { asub[k] = j + 1; a[k++] = -1.0; }
            rhs[j] = (j == 0 || j == n - 1) ? 3.0 : 2.0;           /* exact solution: all ones */
        }
        xa[n] = k;
        memset(raw, 0xC3, cap + 2 * GUARD + 16);
        SuperMatrix A, L, U, B, X; superlu_options_t o; SuperLUStat_t stat; GlobalLU_t Glu; mem_usage_t mu;
        int *perm_c = int32Malloc(n), *perm_r = int32Malloc(n), *etree = int32Malloc(n);
        double *R = doubleMalloc(n), *C = doubleMalloc(n), rpg, rcond, ferr[1], berr[1]; char equed[1]; int_t info;
        dCreate_CompCol_Matrix(&A, n, n, nnz, a, asub, xa, SLU_NC, SLU_D, SLU_GE);
        dCreate_Dense_Matrix(&B, n, 1, rhs, n, SLU_DN, SLU_D, SLU_GE);
        dCreate_Dense_Matrix(&X, n, 1, x, n, SLU_DN, SLU_D, SLU_GE);
        set_default_options(&o); o.Equil = NO; o.IterRefine = NOREFINE; o.ConditionNumber = NO; o.PivotGrowth = NO;
        StatInit(&stat);
        dgssvx(&o, &A, perm_c, perm_r, etree, equed, R, C, &L, &U, work, lwork, &B, &X, &rpg, &rcond, ferr, berr, &Glu, &mu, &stat, &info);
        int g = 0;
        for (unsigned char *p = raw; p < work; p++) g |= (*p != 0xC3);
        for (unsigned char *p = work + lwork; p < raw + cap + 2 * GUARD + 16; p++) g |= (*p != 0xC3);
        double err = 0; if (info == 0) for (int i = 0; i < n; i++) err = fmax(err, fabs(x[i] - 1.0));
        int ok = !g && ((info == 0 && err < 1e-8) || info > n);
        if (info == 0) solved++; else refused++;
        if (!ok) { bad++; printf("lwork %lld: info %lld guards %s err %.1e  <-- VIOLATION\n", (long long)lwork, (long long)info, g ? "CORRUPTED" : "intact", err); }
        StatFree(&stat);
        if (info == 0) { Destroy_SuperMatrix_Store(&L); Destroy_SuperMatrix_Store(&U); }
        Destroy_CompCol_Matrix(&A); Destroy_SuperMatrix_Store(&B); Destroy_SuperMatrix_Store(&X);
        SUPERLU_FREE(rhs); SUPERLU_FREE(x); SUPERLU_FREE(perm_c); SUPERLU_FREE(perm_r); SUPERLU_FREE(etree); SUPERLU_FREE(R); SUPERLU_FREE(C);
    }
    printf("%d workspace sizes: %d solved, %d refused (info > n), %d violations\n", solved + refused, solved, refused, bad);
    free(raw);
    return bad != 0;
}
