/* dgsisx (ILU expert driver) - three documented call forms that the unchanged code mishandled (C15, C08, C19):
 *  T1 size query (lwork = -1) with the default MC64 row permutation: A's row indices must come back unchanged
 *     (the code returned with them still permuted, and leaked perm[], AC and - for row storage - AA);
 *  T2 a zero pivot is replaced (0 < info <= n) while PivotGrowth = YES: the factors are usable and X must be
 *     computed (the code returned before the solve, leaking AC);
 *  T3 the caller's workspace is too small (info > n): the routine must return (the code went on to dgscon/dgstrs
 *     with L and U that were never created unless PivotGrowth happened to be set).
 * Build: cc dgsisx_demo.c <build>/SRC/libsuperlu.a -I<repo>/SRC -lopenblas -lm ; run under valgrind --leak-check=full.
 * Exit 0 iff all three behave as documented. */
#include <stdio.h>
#include <stdlib.h>
#include <string.h>
#include "slu_ddefs.h"

static int run(int which)
{
    /* 4x4, nonsingular; T2 uses a matrix whose second pivot cancels exactly */
    int n = 4;
    double v_ok[]  = {1, 100, 100, 1, 2, 1, 6, 1, 2, 7};   /* MC64 matches rows 0 and 1 crosswise */
    double v_zp[]  = {1, 1, 1, 1, 0, 1, 6, 1, 2, 7};     /* column 1 cancels exactly: every candidate is 0 */
    int_t  ri[]    = {0, 1, 0, 1, 2, 1, 2, 3, 2, 3};
    int_t  cp[]    = {0, 2, 5, 8, 10};
    int_t nnz = 10, ri0[10];
    double *a = doubleMalloc(nnz); int_t *asub = intMalloc(nnz), *xa = intMalloc(n + 1);
    memcpy(a, which == 2 ? v_zp : v_ok, sizeof v_ok); memcpy(asub, ri, sizeof ri); memcpy(xa, cp, sizeof cp); memcpy(ri0, ri, sizeof ri);
    SuperMatrix A, L, U, B, X; superlu_options_t o; SuperLUStat_t stat; GlobalLU_t Glu; mem_usage_t mu;
    int perm_c[4], perm_r[4], etree[4]; char equed[1] = {'N'}; double R[4], C[4], rpg, rcond;
    double b[4] = {1, 2, 3, 4}, x[4] = {-7, -7, -7, -7}; int_t info = 0; int bad = 0;
    static double workbuf[8];
    void *work = NULL; int_t lwork = 0;
    dCreate_CompCol_Matrix(&A, n, n, nnz, a, asub, xa, SLU_NC, SLU_D, SLU_GE);
    dCreate_Dense_Matrix(&B, n, 1, b, n, SLU_DN, SLU_D, SLU_GE);
    dCreate_Dense_Matrix(&X, n, 1, x, n, SLU_DN, SLU_D, SLU_GE);
    ilu_set_default_options(&o);
    o.ConditionNumber = NO;
    StatInit(&stat);
    if (which == 1) { lwork = -1; }
    if (which == 2) { o.PivotGrowth = YES; o.RowPerm = NOROWPERM; o.Equil = NO; o.ColPerm = NATURAL; o.DiagPivotThresh = 0.0; }
    if (which == 3) { work = workbuf; lwork = sizeof workbuf; o.PivotGrowth = NO; }
    dgsisx(&o, &A, perm_c, perm_r, etree, equed, R, C, &L, &U, work, lwork, &B, &X, &rpg, &rcond, &Glu, &mu, &stat, &info);
    if (which == 1) {
        int same = memcmp(asub, ri0, sizeof ri0) == 0;
        printf("T1 size query: info=%lld row indices %s\n", (long long)info, same ? "unchanged" : "LEFT PERMUTED");
        bad = !same || info <= n;
    } else if (which == 2) {
        int solved = x[0] != -7 || x[1] != -7;
        printf("T2 zero pivot replaced with PivotGrowth: info=%lld X %s\n", (long long)info, solved ? "computed" : "NOT COMPUTED");
        bad = !(info >= 1 && info <= n) || !solved;
    } else {
        printf("T3 workspace too small: info=%lld (returned)\n", (long long)info);
        bad = info <= n;
    }
    if (info >= 0 && info <= n && lwork == 0) { Destroy_SuperNode_Matrix(&L); Destroy_CompCol_Matrix(&U); }
    StatFree(&stat);
    Destroy_CompCol_Matrix(&A); Destroy_SuperMatrix_Store(&B); Destroy_SuperMatrix_Store(&X);
    return bad;
}

int main(int argc, char **argv)
{
    int bad = 0;
    if (argc > 1) return run(atoi(argv[1]));
    for (int t = 1; t <= 3; t++) bad |= run(t);
    printf(bad ? "dgsisx demo: VIOLATION\n" : "dgsisx demo: ok\n");
    return bad;
}
