/* sp_dgemv: documented flag spellings are 'N' 'n' 'T' 't' 'C' 'c' (C14).
 *  (a) trans = "n" on a rectangular 2 x 4 matrix: the lengths of x and y were chosen with an upper-case-only test,
 *      so the beta pass scaled y[0..4) although y has 2 elements (out-of-bounds write) and only half of a tall y;
 *  (b) trans = "t" / "c" were rejected as illegal (input_error, y untouched).
 * y is placed between guard values. Exit 0 iff the results equal the upper-case calls and the guards are intact. */
#include <stdio.h>
#include <string.h>
#include "slu_ddefs.h"
int main(void)
{
    int m = 2, n = 4; int_t nnz = 5;
    double *a = doubleMalloc(nnz); int_t *asub = intMalloc(nnz), *xa = intMalloc(n + 1);
    double av[] = {1, 2, 3, 4, 5}; int_t ri[] = {0, 1, 0, 1, 1}, cp[] = {0, 1, 2, 3, 5};
    memcpy(a, av, sizeof av); memcpy(asub, ri, sizeof ri); memcpy(xa, cp, sizeof cp);
    SuperMatrix A; dCreate_CompCol_Matrix(&A, m, n, nnz, a, asub, xa, SLU_NC, SLU_D, SLU_GE);
    double x4[4] = {1, 1, 1, 1}, x2[2] = {1, 1};
    double yN[6] = {-9, 10, 20, -9, -9, -9}, yn[6] = {-9, 10, 20, -9, -9, -9};      /* y = yN[1..2], guards around */
    double yT[6] = {-9, 1, 2, 3, 4, -9}, yt[6] = {-9, 1, 2, 3, 4, -9};
    int bad = 0;
    sp_dgemv("N", 2.0, &A, x4, 1, 3.0, yN + 1, 1);
    sp_dgemv("n", 2.0, &A, x4, 1, 3.0, yn + 1, 1);
    printf("N: %g %g | guards %g %g      n: %g %g | guards %g %g\n", yN[1], yN[2], yN[0], yN[3], yn[1], yn[2], yn[0], yn[3]);
    if (memcmp(yN, yn, sizeof yN) || yn[3] != -9 || yn[4] != -9) { printf("(a) VIOLATION: \"n\" differs from \"N\" / writes past y\n"); bad = 1; }
    sp_dgemv("T", 2.0, &A, x2, 1, 3.0, yT + 1, 1);
    sp_dgemv("t", 2.0, &A, x2, 1, 3.0, yt + 1, 1);
    printf("T: %g %g %g %g      t: %g %g %g %g\n", yT[1], yT[2], yT[3], yT[4], yt[1], yt[2], yt[3], yt[4]);
    if (memcmp(yT, yt, sizeof yT)) { printf("(b) VIOLATION: \"t\" is not the documented transpose product\n"); bad = 1; }
    Destroy_CompCol_Matrix(&A);
    printf(bad ? "" : "ok\n");
    return bad;
}
