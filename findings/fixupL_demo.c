/* fixupL returned early for n <= 1, so for an m-by-1 matrix the row subscripts of L stayed in A's row numbering
 * instead of Pr*A's (C02: L lower trapezoidal; C03: leading entries of a supernode's row list are its own columns).
 * A = [1; 5; 2] (3 x 1): partial pivoting picks row 1, so Pr*A = [5; 1; 2] and L's row list must be {0, 1, 2}
 * with the pivot row first. Exit 0 iff rowind[0] == 0 and the list is a permutation of 0..2. */
#include <stdio.h>
#include "slu_ddefs.h"
int main(void)
{
    int m = 3, n = 1; int_t nnz = 3, info;
    double *a = doubleMalloc(nnz); int_t *asub = intMalloc(nnz), *xa = intMalloc(n + 1);
    a[0] = 1; a[1] = 5; a[2] = 2; asub[0] = 0; asub[1] = 1; asub[2] = 2; xa[0] = 0; xa[1] = 3;
    SuperMatrix A, AC, L, U; superlu_options_t o; SuperLUStat_t stat; GlobalLU_t Glu;
    int perm_c[1] = {0}, perm_r[3], etree[1];
    dCreate_CompCol_Matrix(&A, m, n, nnz, a, asub, xa, SLU_NC, SLU_D, SLU_GE);
    set_default_options(&o); o.ColPerm = MY_PERMC; StatInit(&stat);
    sp_preorder(&o, &A, perm_c, etree, &AC);
    dgstrf(&o, &AC, sp_ienv(2), sp_ienv(1), etree, NULL, 0, perm_c, perm_r, &L, &U, &Glu, &stat, &info);
    SCformat *Ls = L.Store; int_t *ri = Ls->rowind;
    printf("info %lld perm_r = %d %d %d   L rowind = %lld %lld %lld\n", (long long)info, perm_r[0], perm_r[1], perm_r[2],
           (long long)ri[0], (long long)ri[1], (long long)ri[2]);
    int seen[3] = {0, 0, 0}, bad = info != 0 || ri[0] != 0;
    for (int k = 0; k < 3; k++) if (ri[k] < 0 || ri[k] > 2 || seen[ri[k]]++) bad = 1;
    printf(bad ? "VIOLATION: pivot row is not first in P*A numbering\n" : "ok\n");
    return bad;
}
