/* Native demonstration for two genuine defects in dgssvx (and its s/c/z twins):
 *  (1) C18: a call whose only defect is B->ncol < 0 is reported as argument 14 (X) instead of 13 (B);
 *  (2) C19: a singular factorization (0 < info <= n) and a size query (lwork == -1) return without
 *      releasing the column-permuted copy AC (3 blocks) - counted here with malloc hooks.
 * Build: gcc -I/repo/SRC dgssvx_demo.c /repo/_build/SRC/libsuperlu.a -lopenblas -lm
 * Run:   valgrind --leak-check=full --errors-for-leak-kinds=definite --error-exitcode=1 ./a.out
 *        before the fix: info=-14 and 3 AC blocks definitely lost per singular / size-query call; after: exit 0 apart from
 *        the separate dLUMemInit size-query leak (known finding dLUMemInit-size-query-leaks-expanders). */
#include <stdio.h>
#include <stdlib.h>
#include "slu_ddefs.h"

static long live;
/* count library allocations through the documented hooks is not possible in a prebuilt library, so use
 * glibc's malloc statistics instead */
#include <malloc.h>
static size_t in_use(void) { struct mallinfo2 mi = mallinfo2(); return mi.uordblks; }

static int run(int singular, int_t lwork, int bad_b)
{
    int n = 3, nnz = 5, info, perm_c[3], perm_r[3], etree[3];
    double *a = doubleMalloc(nnz); int_t *asub = intMalloc(nnz), *xa = intMalloc(n + 1);
    /* [1 0 2; 0 s 0; 3 0 4], s = 0 makes it exactly singular */
    a[0] = 1; a[1] = 3; a[2] = singular ? 0.0 : 5.0; a[3] = 2; a[4] = 4;
    asub[0] = 0; asub[1] = 2; asub[2] = 1; asub[3] = 0; asub[4] = 2;
    xa[0] = 0; xa[1] = 2; xa[2] = 3; xa[3] = 5;
    SuperMatrix A, L, U, B, X; superlu_options_t o; SuperLUStat_t stat; GlobalLU_t Glu; mem_usage_t mu;
    double R[3], C[3], ferr[1], berr[1], rpg, rcond, *b = doubleMalloc(3), *x = doubleMalloc(3);
    char equed[1];
    b[0] = b[1] = b[2] = 1; 
    dCreate_CompCol_Matrix(&A, n, n, nnz, a, asub, xa, SLU_NC, SLU_D, SLU_GE);
    dCreate_Dense_Matrix(&B, n, 1, b, n, SLU_DN, SLU_D, SLU_GE);
    dCreate_Dense_Matrix(&X, n, 1, x, n, SLU_DN, SLU_D, SLU_GE);
    set_default_options(&o); o.Equil = NO; o.ColPerm = NATURAL;
    StatInit(&stat);
    if (bad_b) B.ncol = -1;
    size_t before = in_use();
    dgssvx(&o, &A, perm_c, perm_r, etree, equed, R, C, &L, &U, NULL, lwork, &B, &X, &rpg, &rcond, ferr, berr,
           &Glu, &mu, &stat, &info);
    if (bad_b) { printf("B->ncol=-1: info=%d (documented: -13)\n", info); B.ncol = 1; }
    if (!bad_b && lwork == 0 && info >= 0 && info <= n) { Destroy_SuperNode_Matrix(&L); Destroy_CompCol_Matrix(&U); }
    size_t after = in_use();
    if (!bad_b) printf("singular=%d lwork=%d: info=%d, bytes still allocated by the library after the caller destroyed L,U: %ld\n",
           singular, (int)lwork, info, (long)(after - before));
    StatFree(&stat);
    Destroy_CompCol_Matrix(&A); Destroy_SuperMatrix_Store(&B); Destroy_SuperMatrix_Store(&X); SUPERLU_FREE(b); SUPERLU_FREE(x);
    (void)before; (void)after;
    if (bad_b) return info != -13;
    return 0;   /* leaks are judged by valgrind: valgrind --leak-check=full --error-exitcode=1 ./a.out */
}

int main(void)
{
    int bad = 0;
    run(0, 0, 0);                 /* warm up allocator */
    bad |= run(0, 0, 0);          /* regular solve: no leak expected */
    bad |= run(1, 0, 0) << 1;     /* singular */
    bad |= run(0, -1, 0) << 2;    /* size query */
    bad |= run(0, 0, 1) << 3;     /* invalid B */
    printf("defect mask = %d\n", bad);
    return bad != 0;
}
