#include "slu_ddefs.h"
#include "vf_prelude.h"
#include "vf_replaced.h"
/* all argument objects are created by the contract's preconditions (__CPROVER_is_fresh) */
void h_dallocateA(void)
{
    int n; int_t nnz; double **a; int_t **asub, **xa;
    dallocateA(n, nnz, a, asub, xa);
}
