#include "slu_ddefs.h"
#include "vf_prelude.h"
#include "vf_replaced.h"
/* all argument objects are created by the contract's preconditions (__CPROVER_is_fresh) */
void h_dQuerySpace(void)
{
    SuperMatrix *L, *U; mem_usage_t *mem_usage;
    dQuerySpace(L, U, mem_usage);
}
