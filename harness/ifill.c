#include "slu_ddefs.h"
#include "vf_prelude.h"
#include "vf_replaced.h"
/* all argument objects are created by the contract's preconditions (__CPROVER_is_fresh) */
void h_ifill(void)
{
    int *a; int alen, ival;
    ifill(a, alen, ival);
}
