#include "slu_ddefs.h"
#include "vf_prelude.h"
#include "vf_replaced.h"
/* all argument objects are created by the contract's preconditions (__CPROVER_is_fresh) */
void h_get_colamd(void)
{
    int m, n; int_t nnz;
    int_t *colptr, *rowind; int *perm_c;
    get_colamd(m, n, nnz, colptr, rowind, perm_c);
}
