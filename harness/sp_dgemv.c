#include "slu_ddefs.h"
#include "vf_prelude.h"
#include "vf_replaced.h"
/* all argument objects are created by the contract's preconditions (__CPROVER_is_fresh);
 * scalars are unconstrained (nondeterministic) */
void h_sp_dgemv(void)
{
    char *trans;
    double alpha, beta;
    SuperMatrix *A;
    double *x, *y;
    int incx, incy;
    sp_dgemv(trans, alpha, A, x, incx, beta, y, incy);
}
