/* vf_support.c - definitions of the ghost state and of the allocation hooks that are plugged
 * into the library's own USER_MALLOC / USER_FREE / USER_ABORT macros (slu_util.h). */
#include "vf_prelude.h"

int g_i, g_j, g_k, g_l;
int g_a, g_b, g_c, g_d;
int g_p0, g_p1, g_p2, g_p3;
double g_v;
long g_live;
unsigned g_seq;
VF_TRACE_LIST(VF_TR_DEF)

#ifndef VF_REPLACE_ALLOC
/* leaf units: the real allocator stays underneath so CBMC's invalid-free / double-free /
 * use-after-free checks fire and --malloc-may-fail enumerates every failure position. */
void *vf_malloc(size_t n)
{
#ifdef VF_MALLOC_CAP
    /* opt-in (bounded VALUE units only; never a unit that serves C19 / C08): the block has the constant capacity VF_MALLOC_CAP
     * bytes (a symbolic-size array of doubles costs 16-32 GB, DESIGN 2); a request beyond it is an assertion failure.
     * Over-allocation can hide an overrun of the requested size: memory safety of the function is decided by its inductive unit. */
    __CPROVER_assert(n <= VF_MALLOC_CAP, "VF_MALLOC_CAP: request inside the constant capacity");
    void *p = malloc(VF_MALLOC_CAP);
#else
    void *p = malloc(n);
#endif
    if (p) g_live++;
    return p;
}

void vf_free(void *p)
{
    if (p) g_live--;
#ifndef VF_LEDGER_ONLY_FREE
    free(p);
#endif
    /* VF_LEDGER_ONLY_FREE (driver-protocol units): the block is only taken off the ledger; double-free /
     * use-after-free are checked in the leaf units, where the real free() stays underneath. */
}
#endif

void vf_abort(char *msg)
{
    (void)msg;
#ifdef VF_ABORT_FORBIDDEN
    __CPROVER_assert(0, "USER_ABORT reached");
#endif
    __CPROVER_assume(0);   /* ABORT never returns (superlu_abort_and_exit calls exit) */
}

/* ---- libc models (TRUSTED; listed in evidence.assumptions) ---------------------------------
 * With --apply-loop-contracts every loop that is not replaced needs a loop contract, including
 * the loops inside CBMC's own string models; these replacements carry one. */
int strncmp(const char *s1, const char *s2, size_t n)
{
    for (size_t i = 0; i < n; i++)
        __CPROVER_assigns(i)
        __CPROVER_loop_invariant(i <= n)
        __CPROVER_decreases(n - i)
    {
        unsigned char a = (unsigned char)s1[i], b = (unsigned char)s2[i];
        if (a != b) return a < b ? -1 : 1;
        if (a == 0) return 0;
    }
    return 0;
}

int nondet_int(void);
/* ABORT() formats its message with sprintf into a local buffer that only reaches USER_ABORT */
int sprintf(char *s, const char *format, ...)
{
    (void)s; (void)format;
    return nondet_int();
}
