#include "slu_ddefs.h"
#include "vf_prelude.h"
#include "vf_replaced.h"
/* all argument objects are created by the contract's preconditions (__CPROVER_is_fresh / pointer_in_range) */
void user_bcopy(char *, char *, int);
void h_user_bcopy(void)
{
    char *src, *dest; int bytes;
    user_bcopy(src, dest, bytes);
}
