#include "slu_ddefs.h"
#include "vf_prelude.h"
#include "vf_replaced.h"
/* all argument objects are created by the contract's preconditions (__CPROVER_is_fresh) */
void h_C10_sp_preorder(void)
{
    superlu_options_t *options;
    SuperMatrix *A, *AC;
    int *perm_c, *etree;
    sp_preorder(options, A, perm_c, etree, AC);
}
