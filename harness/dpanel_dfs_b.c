#include "slu_ddefs.h"
#include "vf_prelude.h"
#include "vf_replaced.h"
/* all argument objects are created by the contract's preconditions (__CPROVER_is_fresh).
 * BOUNDED unit: the number of rows is the constant MCAP (the strides m of dense / repfnz / panel_lsub and the offset of marker1 are
 * then constants); the contract itself is stated for 1 <= m <= MCAP. */
void h_dpanel_dfs_b(void)
{
    int m, w, jcol; SuperMatrix *A; int *perm_r, *nseg; double *dense; int_t *xprune; int *panel_lsub, *segrep, *repfnz, *marker, *parent;
    int_t *xplore; GlobalLU_t *Glu;
    m = MCAP;
    dpanel_dfs(m, w, jcol, A, perm_r, nseg, dense, panel_lsub, segrep, repfnz, xprune, marker, parent, xplore, Glu);
}
