#include "slu_ddefs.h"
#include "vf_prelude.h"
#include "vf_replaced.h"
/* all argument objects are created by the contract's preconditions (__CPROVER_is_fresh / pointer_in_range) */
void dStackCompress(GlobalLU_t *);
void h_dStackCompress(void)
{
    GlobalLU_t *Glu;
    dStackCompress(Glu);
}
