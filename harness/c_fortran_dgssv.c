#include "slu_ddefs.h"
#include "vf_prelude.h"
#include "vf_replaced.h"
/* the bridge has no prototype in a header (it is called from Fortran); fptr is `long long` */
void c_fortran_dgssv_(int *iopt, int *n, int_t *nnz, int *nrhs, double *values, int_t *rowind, int_t *colptr,
                      double *b, int *ldb, long long *f_factors, int_t *info);
void h_c_fortran_dgssv(void)
{
    int *iopt, *n, *nrhs, *ldb; int_t *nnz, *rowind, *colptr, *info; double *values, *b; long long *f_factors;
    c_fortran_dgssv_(iopt, n, nnz, nrhs, values, rowind, colptr, b, ldb, f_factors, info);
}
