#include "slu_ddefs.h"
#include "vf_prelude.h"
#include "vf_replaced.h"

/* Unit dgsrfs_b (BOUNDED stand-in): one call of the real dgsrfs with every loop unwound (see @@pre_unwind in the spec).
 *
 * ASSUMED models of the two workspace allocators (loop-free bodies, same statement as a private contract): a new ledger block of
 * exactly n elements with arbitrary contents, or no return (the library ABORTs when malloc fails). The blocks are TYPED
 * (malloc(n * sizeof(T))); the third workspace (rwork) and Bjcol.Store come from SUPERLU_MALLOC = the ledger model of vf_support.c. */
double *doubleMalloc(size_t n)
{
    if (n > 2 * NCAP) vf_abort("doubleMalloc");   /* beyond the capacity of this unit: taken to fail (never on the proved domain) */
    double *p = (double *)malloc(n * sizeof(double));
    if (!p) vf_abort("doubleMalloc");
    g_live++;
    return p;
}

int *int32Malloc(int n)
{
    if (n < 0 || n > 2 * NCAP) vf_abort("int32Malloc");
    int *p = (int *)malloc((size_t)n * sizeof(int));
    if (!p) vf_abort("int32Malloc");
    g_live++;
    return p;
}

int nondet_int(void);

/* The argument objects are the TYPED, pairwise distinct, uninitialised (= nondeterministic) objects below - the objects the FRESH
 * clauses of the general contract (dgsrfs.spec) describe; the contract text of this unit says rw_ok for them (macro DR_OBJ).
 * TOOL REASON (measured in units sp_dtrsv / dgstrs): __CPROVER_is_fresh creates untyped byte arrays; with them this unit runs out of
 * memory (10 GB) during propositional reduction. Nothing is initialised except the pointer fields and the constants of the BOX:
 *   trans (per variant), n = A.nrow = A.ncol = DR_BOX_N, nrhs = B.ncol = DR_BOX_NRHS  - the SAME values the variant's requires clauses state
 *   (a requires clause alone does not give the symbolic executor concrete loop bounds / drop the branches of the other modes).
 * Frame trick for the scale factors (DESIGN.md C05): R resp. C is a NULL pointer in the variants in which the documentation says the
 * array is not accessed for this trans; in the other variants it is NULL or the real array, and the contract requires it to be
 * readable exactly when equed says the scaling was applied - a read of the wrong array fails a pointer check. */
static void h_common(void)
{
    trans_t trans;
    SuperMatrix A, L, U, B, X;
    NCformat As;
    DNformat Bs, Xs;
    int_t colptr[NCAP + 1], rowind[NZCAP];
    double aval[NZCAP], bval[LDCAP * RCAP], xval[LDCAP * RCAP];
    int perm_c[NCAP], perm_r[NCAP];
    double Robj[NCAP], Cobj[NCAP], ferr[RCAP], berr[RCAP];
    double *R, *C;
    char equed[1];
    SuperLUStat_t stat;
    flops_t ops[NPHASES];
    int info;
#ifdef DR_FIX_TRANS
    trans = DR_FIX_TRANS;
#endif
    As.colptr = colptr; As.rowind = rowind; As.nzval = aval;
    Bs.nzval = bval; Xs.nzval = xval;
    A.Store = &As; B.Store = &Bs; X.Store = &Xs; stat.ops = ops;
#ifdef DR_BOX_N
    A.nrow = DR_BOX_N; A.ncol = DR_BOX_N;
#endif
#ifdef DR_BOX_NRHS
    B.ncol = DR_BOX_NRHS;
#endif
#ifdef DR_BOX_N
    /* the factors belong to A (documented; the contract requires L->nrow == U->nrow == A->nrow for legal arguments) */
    L.nrow = DR_BOX_N; L.ncol = DR_BOX_N; U.nrow = DR_BOX_N; U.ncol = DR_BOX_N;
#endif
#ifdef DR_BOX_LDB
    Bs.lda = DR_BOX_LDB; Xs.lda = DR_BOX_LDX;
#endif
#if LDCAP * RCAP != 6 || NCAP != 2
#error "dgsrfs_b: the constant blocks below are written for LDCAP * RCAP == 6, NCAP == 2"
#endif
#ifdef DR_BOX_BVAL
    /* BOX: every stored entry of B (padding rows included) is the constant DR_BOX_BVAL */
    bval[0] = DR_BOX_BVAL; bval[1] = DR_BOX_BVAL; bval[2] = DR_BOX_BVAL; bval[3] = DR_BOX_BVAL; bval[4] = DR_BOX_BVAL; bval[5] = DR_BOX_BVAL;
#endif
#ifdef DR_BOX_XVAL
    /* BOX: every stored entry of the incoming X is the constant DR_BOX_XVAL */
    xval[0] = DR_BOX_XVAL; xval[1] = DR_BOX_XVAL; xval[2] = DR_BOX_XVAL; xval[3] = DR_BOX_XVAL; xval[4] = DR_BOX_XVAL; xval[5] = DR_BOX_XVAL;
#endif
#ifdef DR_BOX_AEMPTY
    /* BOX: A has no stored entry */
    colptr[0] = 0; colptr[1] = 0; colptr[2] = 0;
#endif
#if defined(DR_FIX_TRANS) && defined(DR_V_NOTRANS)
    R = (double *)0;
    C = nondet_int() ? Cobj : (double *)0;
#elif defined(DR_FIX_TRANS)
    C = (double *)0;
    R = nondet_int() ? Robj : (double *)0;
#else
    R = nondet_int() ? Robj : (double *)0;
    C = nondet_int() ? Cobj : (double *)0;
#endif
    dgsrfs(trans, &A, &L, &U, perm_c, perm_r, equed, R, C, &B, &X, ferr, berr, &stat, &info);
}

void h_dgsrfs_b(void) { h_common(); }

/* entry point of unit dgsrfs_bz (zero-mode variants, same harness) */
void h_dgsrfs_bz(void) { h_common(); }
