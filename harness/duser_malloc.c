#include "slu_ddefs.h"
#include "vf_prelude.h"
#include "vf_replaced.h"
/* all argument objects are created by the contract's preconditions (__CPROVER_is_fresh) */
void *duser_malloc(int, int, GlobalLU_t *);
void h_duser_malloc(void)
{
    int bytes, which_end;
    GlobalLU_t *Glu;
    duser_malloc(bytes, which_end, Glu);
}
