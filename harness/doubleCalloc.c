#include "slu_ddefs.h"
#include "vf_prelude.h"
#include "vf_replaced.h"
void h_doubleCalloc(void)
{
    size_t n;
    doubleCalloc(n);
}
