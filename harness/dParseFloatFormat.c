#include "slu_ddefs.h"
#include "vf_prelude.h"
#include "vf_replaced.h"
int dParseFloatFormat(char *buf, int *num, int *size);
/* all argument objects are created by the contract's preconditions (__CPROVER_is_fresh) */
void h_dParseFloatFormat(void)
{
    char *buf; int *num, *size;
    dParseFloatFormat(buf, num, size);
}
