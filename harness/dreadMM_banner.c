/* harness for dreadMM_banner: dreadMM with a TEXT-carrying model of the banner line (contracts/vf_mmbanner.h).
 * TRUSTED stdio model: as contracts/vf_mmfile_impl.h, except that
 *   - the first fgets copies the ghost banner line *vf_B (arbitrary upper/lower-case spelling) into the caller's buffer,
 *   - sscanf("%s %s %s %s %s") cuts the five tokens out of the buffer as the reader left it (fixed single-blank layout).
 * All model functions are loop-free, so DFCC checks every store they make against the reader's write set. */
#include "slu_ddefs.h"
#include "vf_prelude.h"
#include "vf_replaced.h"
#include "vf_mmbanner.h"

struct vf_mmfile *vf_F;
struct vf_mmbanner *vf_B;
int nondet_int(void);

#define VF_S(k) if (a[k] != b[k]) return (unsigned char)a[k] < (unsigned char)b[k] ? -1 : 1; if (a[k] == 0) return 0;
int vf_strcmp(const char *a, const char *b)
{
    VF_S(0) VF_S(1) VF_S(2) VF_S(3) VF_S(4) VF_S(5) VF_S(6) VF_S(7)
    VF_S(8) VF_S(9) VF_S(10) VF_S(11) VF_S(12) VF_S(13) VF_S(14) VF_S(15)
    return nondet_int();               /* longer than any token of the model: any answer */
}
#define VF_SC(k) if (VF_LOWER(a[k]) != VF_LOWER(b[k])) return VF_LOWER(a[k]) < VF_LOWER(b[k]) ? -1 : 1; if (a[k] == 0) return 0;
int vf_strcasecmp(const char *a, const char *b)
{
    VF_SC(0) VF_SC(1) VF_SC(2) VF_SC(3) VF_SC(4) VF_SC(5) VF_SC(6) VF_SC(7)
    VF_SC(8) VF_SC(9) VF_SC(10) VF_SC(11) VF_SC(12) VF_SC(13) VF_SC(14) VF_SC(15)
    return nondet_int();
}
int vf_tolower(int c) { return (c >= 'A' && c <= 'Z') ? c + ('a' - 'A') : c; }

/* first call: the banner line; later calls: a line of arbitrary text (buffer left as it is, only NUL-terminated) */
#define VF_L(k) s[k] = vf_B->raw[k];
#define VF_L8(k) VF_L(k) VF_L(k + 1) VF_L(k + 2) VF_L(k + 3) VF_L(k + 4) VF_L(k + 5) VF_L(k + 6) VF_L(k + 7)
char *vf_fgets(char *s, int size, FILE *stream)
{
    (void)stream;
    if (vf_B->lines == 0) {
        VF_L8(0) VF_L8(8) VF_L8(16) VF_L8(24) VF_L8(32) VF_L8(40) VF_L8(48) VF_L8(56)
        vf_B->lines = 1;
    }
    s[size - 1] = 0;
    return s;
}

/* one token: the characters from s[0] up to the first blank / newline / NUL (at most 15), NUL-terminated */
#define VF_END(c) ((c) == ' ' || (c) == '\n' || (c) == 0)
#define VF_T(k) if (VF_END(s[k])) { d[k] = 0; return; } d[k] = s[k];
static void vf_token(char *d, const char *s)
{
    VF_T(0) VF_T(1) VF_T(2) VF_T(3) VF_T(4) VF_T(5) VF_T(6) VF_T(7)
    VF_T(8) VF_T(9) VF_T(10) VF_T(11) VF_T(12) VF_T(13) VF_T(14)
    d[15] = 0;
}
/* "%s %s %s %s %s": the five tokens of the banner line, cut out of the buffer as it is NOW */
int vf_sscanf_7(const char *str, const char *fmt, char *banner, char *mtx, char *crd, char *arith, char *sym)
{
    (void)fmt;
    vf_token(banner, str);
    vf_token(mtx, str + VF_B_MTX);
    vf_token(crd, str + VF_B_CRD);
    vf_token(arith, str + VF_B_ARI);
    vf_token(sym, str + VF_B_SYM);
    return 5;
}
/* "%s": first token of the next line */
int vf_sscanf_3(const char *str, const char *fmt, char *tok)
{
    (void)str; (void)fmt;
    if (vf_F->comments > 0) { tok[0] = '%'; vf_F->comments--; }
    else tok[0] = '1';                          /* the size line starts with a number */
    tok[1] = 0;
    return 1;
}
/* "%d%d%d": the size line */
int vf_sscanf_5(const char *str, const char *fmt, int *m, int *n, int *nonz)
{
    (void)str; (void)fmt;
    *m = vf_F->m; *n = vf_F->n; *nonz = vf_F->nonz;
    return 3;
}
/* "%d%d%lf\n": the next coordinate record of the file */
int vf_fscanf_5(FILE *fp, const char *fmt, int *r, int *c, double *v)
{
    (void)fp; (void)fmt;
    if (vf_F->pos < 0 || vf_F->pos >= VF_FZ) return -1;   /* EOF */
    *r = vf_F->row[vf_F->pos];
    *c = vf_F->col[vf_F->pos];
    *v = vf_F->val[vf_F->pos];
    vf_F->pos++;
    return 3;
}
int vf_fprintf_0(FILE *f) { (void)f; return nondet_int(); }

/* all argument objects (and the ghost file / banner) are created by the contract's preconditions */
void h_dreadMM_banner(void)
{
    FILE *fp; int *m, *n; int_t *nonz; double **nzval; int_t **rowind, **colptr;
    dreadMM(fp, m, n, nonz, nzval, rowind, colptr);
}
