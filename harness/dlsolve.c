#include "slu_ddefs.h"
#include "vf_prelude.h"
#include "vf_replaced.h"
void dlsolve(int ldm, int ncol, double *M, double *rhs);
/* all argument objects are created by the contract's preconditions (__CPROVER_is_fresh);
 * scalars are unconstrained (nondeterministic) */
void h_dlsolve(void)
{
    int ldm;
    /* bounded unit: the variant's requires fixes ncol; the SAME value is set here as a constant because a requires clause
     * does not make the symbolic executor drop the other loop iterations */
#ifdef MYB_NCOL
    int ncol = MYB_NCOL;
#else
    int ncol;
#endif
    double *M, *rhs;
    dlsolve(ldm, ncol, M, rhs);
}
