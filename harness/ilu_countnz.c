#include "slu_ddefs.h"
#include "vf_prelude.h"
#include "vf_replaced.h"
/* all argument objects are created by the contract's preconditions (__CPROVER_is_fresh) */
void h_ilu_countnz(void)
{
    int n; int_t *nnzL, *nnzU; GlobalLU_t *Glu;
    ilu_countnz(n, nnzL, nnzU, Glu);
}
