/* harness for the (file-static) ReadVector of SRC/dreadrb.c; compiled with -Dstatic=.
 * The trusted text models (fgets, atoi) are body-less: their contracts are the private @@external sections of the spec. */
#include "slu_ddefs.h"
#include "vf_prelude.h"
#include "vf_replaced.h"
struct vf_hbtext *vf_T;
int ReadVector(FILE *fp, int n, int_t *where, int perline, int persize);
/* all argument objects (and the ghost block) are created by the contract's preconditions */
void h_ReadVector_rb(void)
{
    FILE *fp; int n, perline, persize; int_t *where;
    ReadVector(fp, n, where, perline, persize);
}
