#include "slu_ddefs.h"
#include "vf_prelude.h"
#include "vf_replaced.h"
/* all argument objects are created by the contract's preconditions (__CPROVER_is_fresh); x is an arbitrary
 * pointer value: the routine must not dereference it */
void h_dCreate_Dense_Matrix(void)
{
    SuperMatrix *X; int m, n, ldx; double *x;
    Stype_t stype; Dtype_t dtype; Mtype_t mtype;
    dCreate_Dense_Matrix(X, m, n, x, ldx, stype, dtype, mtype);
}
