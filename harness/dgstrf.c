#include "slu_ddefs.h"
#include "vf_prelude.h"
#include "vf_replaced.h"
void h_dgstrf(void)
{
    superlu_options_t *options; SuperMatrix *A, *L, *U; int relax, panel_size; int *etree, *perm_c, *perm_r;
    void *work; int_t lwork; GlobalLU_t *Glu; SuperLUStat_t *stat; int_t *info;
    dgstrf(options, A, relax, panel_size, etree, work, lwork, perm_c, perm_r, L, U, Glu, stat, info);
}
