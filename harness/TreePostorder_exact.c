/* BOUNDED harness for TreePostorder (n <= 4): the parent vector is a typed local with arbitrary contents
 * (the contract's requires restricts it to forests); nothing is assumed here. */
#include "slu_ddefs.h"
#include "vf_prelude.h"
#include "vf_replaced.h"
void h_TreePostorder_exact(void)
{
    int parent[4];      /* uninitialised: any contents */
    int n;
    int *post;
#ifdef TP_N
    n = TP_N;
#endif
    post = TreePostorder(n, parent);
}
