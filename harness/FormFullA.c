/* harness for the (file-static) FormFullA of SRC/dreadhb.c; compiled with -Dstatic= */
#include "slu_ddefs.h"
#include "vf_prelude.h"
#include "vf_replaced.h"
void FormFullA(int n, int_t *nonz, double **nzval, int_t **rowind, int_t **colptr);
/* all argument objects are created by the contract's preconditions (__CPROVER_is_fresh) */
void h_FormFullA(void)
{
    int n; int_t *nonz; double **nzval; int_t **rowind, **colptr;
    FormFullA(n, nonz, nzval, rowind, colptr);
}
