#include "slu_zdefs.h"
#include "vf_prelude.h"
#include "vf_replaced.h"
/* all argument objects are created by the contract's preconditions (__CPROVER_is_fresh);
 * scalars (including both parts of alpha and beta) are unconstrained (nondeterministic) */
void h_sp_zgemv(void)
{
    char *trans;
    doublecomplex alpha, beta;
    SuperMatrix *A;
    doublecomplex *x, *y;
    int incx, incy;
    sp_zgemv(trans, alpha, A, x, incx, beta, y, incy);
}
