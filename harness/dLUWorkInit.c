#include "slu_ddefs.h"
#include "vf_prelude.h"
#include "vf_replaced.h"
int dLUWorkInit(int, int, int, int **, double **, GlobalLU_t *);
void h_dLUWorkInit(void)
{
    int m, n, panel_size; int **iworkptr; double **dworkptr; GlobalLU_t *Glu;
    dLUWorkInit(m, n, panel_size, iworkptr, dworkptr, Glu);
}
