#include "slu_ddefs.h"
#include "vf_prelude.h"
#include "vf_replaced.h"
/* BOUNDED harness of the unit dpruneL_b.
 * The argument objects are TYPED, pairwise distinct objects with arbitrary contents (the contract says rw_ok for them, macro
 * PR_OBJ; tool reason measured in sp_dtrsv / dgstrs_notrans_b / dcolumn_dfs_b: is_fresh objects are untyped byte arrays).
 * Nothing is assumed here: only the pointer fields of Glu are set. */
void h_dpruneL_b(void)
{
    int jcol, pivrow, nseg;
    int perm_r[MCAP], segrep[SCAP], repfnz[MCAP];
    int_t xprune[NCAP];
    int xsup[NCAP + 1], supno[NCAP + 1];
    int_t xlsub[NCAP + 1], xlusup[NCAP + 1], lsub[LCAP];
    double lusup[LUCAP];
    GlobalLU_t Glu;
    Glu.xsup = xsup; Glu.supno = supno; Glu.xlsub = xlsub; Glu.xlusup = xlusup; Glu.lsub = lsub; Glu.lusup = lusup;
    dpruneL(jcol, perm_r, pivrow, nseg, segrep, repfnz, xprune, &Glu);
}
