#include "slu_ddefs.h"
#include "vf_prelude.h"
#include "vf_replaced.h"
/* all argument objects are created by the contract's preconditions (__CPROVER_is_fresh) */
void h_dPivotGrowth(void)
{
    int ncols;
    int *perm_c;
    SuperMatrix *A, *L, *U;
    double r = dPivotGrowth(ncols, A, perm_c, L, U);
    (void)r;
}
