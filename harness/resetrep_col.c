#include "slu_ddefs.h"
#include "vf_prelude.h"
#include "vf_replaced.h"
/* all argument objects are created by the contract's preconditions (__CPROVER_is_fresh) */
void h_resetrep_col(void)
{
    int nseg; int *segrep, *repfnz;
    resetrep_col(nseg, segrep, repfnz);
}
