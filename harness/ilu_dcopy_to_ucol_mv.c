#include "slu_ddefs.h"
#include "vf_prelude.h"
#include "vf_replaced.h"
/* all argument objects are created by the contract's preconditions (__CPROVER_is_fresh) */
void h_ilu_dcopy_to_ucol_mv(void)
{
    int jcol, nseg, drop_rule, quota; int *segrep, *repfnz, *perm_r, *nnzUj; double *dense, *sum, *work; double drop_tol;
    milu_t milu; GlobalLU_t *Glu;
    ilu_dcopy_to_ucol(jcol, nseg, segrep, repfnz, perm_r, dense, drop_rule, milu, drop_tol, quota, sum, nnzUj, Glu, work);
}
