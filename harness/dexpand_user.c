#include "slu_ddefs.h"
#include "vf_prelude.h"
#include "vf_replaced.h"
/* all argument objects are created by the contract's preconditions (__CPROVER_is_fresh) */
void *dexpand(int_t *, MemType, int_t, int, GlobalLU_t *);
void h_dexpand_user(void)
{
    int_t *prev_len; MemType type; int_t len_to_copy; int keep_prev; GlobalLU_t *Glu;
    dexpand(prev_len, type, len_to_copy, keep_prev, Glu);
}
