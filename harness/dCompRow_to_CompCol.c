#include "slu_ddefs.h"
#include "vf_prelude.h"
#include "vf_replaced.h"
/* all argument objects are created by the contract's preconditions (__CPROVER_is_fresh) */
void h_dCompRow_to_CompCol(void)
{
    int m, n; int_t nnz; double *a, **at; int_t *colind, *rowptr, **rowind, **colptr;
    dCompRow_to_CompCol(m, n, nnz, a, colind, rowptr, at, rowind, colptr);
}
