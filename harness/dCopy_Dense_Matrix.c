#include "slu_ddefs.h"
#include "vf_prelude.h"
#include "vf_replaced.h"
/* all argument objects are created by the contract's preconditions (__CPROVER_is_fresh) */
void h_dCopy_Dense_Matrix(void)
{
    int M, N, ldx, ldy; double *X, *Y;
    dCopy_Dense_Matrix(M, N, X, ldx, Y, ldy);
}
