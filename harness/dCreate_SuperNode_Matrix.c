#include "slu_ddefs.h"
#include "vf_prelude.h"
#include "vf_replaced.h"
/* all argument objects are created by the contract's preconditions (__CPROVER_is_fresh); the arrays other than
 * col_to_sup are arbitrary pointer values: the routine must not dereference them */
void h_dCreate_SuperNode_Matrix(void)
{
    SuperMatrix *L; int m, n; int_t nnz; double *nzval; int_t *nzval_colptr, *rowind, *rowind_colptr;
    int *col_to_sup, *sup_to_col;
    Stype_t stype; Dtype_t dtype; Mtype_t mtype;
    dCreate_SuperNode_Matrix(L, m, n, nnz, nzval, nzval_colptr, rowind, rowind_colptr, col_to_sup, sup_to_col, stype, dtype, mtype);
}
