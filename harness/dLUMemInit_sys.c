#include "slu_ddefs.h"
#include "vf_prelude.h"
#include "vf_replaced.h"
/* all argument objects are created by the contract's preconditions (__CPROVER_is_fresh) */
void h_dLUMemInit_sys(void)
{
    fact_t fact; void *work; int_t lwork; int m, n; int_t annz; int panel_size; double fill_ratio;
    SuperMatrix *L, *U; GlobalLU_t *Glu; int **iwork; double **dwork;
    dLUMemInit(fact, work, lwork, m, n, annz, panel_size, fill_ratio, L, U, Glu, iwork, dwork);
}
