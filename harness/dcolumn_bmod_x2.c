#include "slu_ddefs.h"
#include "vf_prelude.h"
#include "vf_replaced.h"
#ifdef CB_TYPED
/* TOOL REASON (measured in dpanel_bmod / sp_dtrsv / dsnode_bmod): the argument objects are TYPED, pairwise distinct, otherwise
 * uninitialised (= nondeterministic) objects of exactly the sizes the contract's object clauses state (macro CB_OBJ: rw_ok + exact
 * object size + offset 0 instead of __CPROVER_is_fresh, which creates untyped byte arrays). Nothing is initialised except the pointer
 * fields the contract's object clauses speak about. */
void h_dcolumn_bmod_x2(void)
{
    int jcol, nseg, fpanelc;
    double dense[MCAP], tempv[MCAP];
    int segrep[NCAP], repfnz[NCAP];
    GlobalLU_t Glu;
    SuperLUStat_t stat;
    flops_t ops[NPHASES];
    int xsup[NCAP + 1], supno[NCAP + 1];
    int_t xlsub[NCAP + 1], xlusup[NCAP + 1], lsub[LCAP];
    double lusup[LUCAP];
    Glu.xsup = xsup; Glu.supno = supno; Glu.xlsub = xlsub; Glu.xlusup = xlusup; Glu.lsub = lsub; Glu.lusup = lusup;
    stat.ops = ops;
    dcolumn_bmod(jcol, nseg, dense, tempv, segrep, repfnz, fpanelc, &Glu, &stat);
}
#else
/* all argument objects are created by the contract's preconditions (__CPROVER_is_fresh) */
void h_dcolumn_bmod_x2(void)
{
    int jcol, nseg, fpanelc;
    double *dense, *tempv;
    int *segrep, *repfnz;
    GlobalLU_t *Glu;
    SuperLUStat_t *stat;
    dcolumn_bmod(jcol, nseg, dense, tempv, segrep, repfnz, fpanelc, Glu, stat);
}
#endif
/* TOOL REASON: goto-instrument refuses `--replace-call-with-contract f` when f is not referenced anywhere in the program, and each
 * variant (USE_VENDOR_BLAS on / off) calls only one pair of the four replaced kernels. This function is NEVER called (the entry point is
 * h_dcolumn_bmod_x2); it only keeps the four symbols in the program. */
void vf_dcolumn_bmod_keep_symbols(void)
{
    dtrsv_(0, 0, 0, 0, 0, 0, 0, 0);
    dgemv_(0, 0, 0, 0, 0, 0, 0, 0, 0, 0, 0);
    dlsolve(0, 0, 0, 0);
    dmatvec(0, 0, 0, 0, 0, 0);
}
