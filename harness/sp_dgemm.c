#include "slu_ddefs.h"
#include "vf_prelude.h"
#include "vf_replaced.h"
/* all argument objects are created by the contract's preconditions (__CPROVER_is_fresh);
 * scalars are unconstrained (nondeterministic) */
void h_sp_dgemm(void)
{
    char *transa, *transb;
    int m, n, k, ldb, ldc;
    double alpha, beta;
    SuperMatrix *A;
    double *b, *c;
    sp_dgemm(transa, transb, m, n, k, alpha, A, b, ldb, beta, c, ldc);
}
/* same call, entry point of unit sp_dgemm_transb (TRANSB = 'T' 't' 'C' 'c': CANDIDATE-DEFECT, see the spec) */
void h_sp_dgemm_transb(void)
{
    h_sp_dgemm();
}
