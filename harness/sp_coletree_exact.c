/* BOUNDED exactness harness for sp_coletree (nr, nc <= 3, nnz <= 5).
 * The reference column elimination tree is computed here, in plain C, from the DEFINITION:
 *   1. dense boolean pattern of A from (acolst, acolend, arow);
 *   2. pattern of A'A: columns i != j are adjacent iff some row has an entry in both;
 *   3. symbolic Cholesky of that symmetric pattern by the textbook O(n^3) fill simulation
 *      (eliminating k joins all its higher neighbours pairwise);
 *   4. parent[j] = smallest k > j with L[k][j] != 0 after fill, nc for a root.
 * It shares no code and no idea (disjoint sets, first-column stars) with SRC/sp_coletree.c.
 * The result is handed to the contract through the ghost abbreviations g_p0..g_p2 (= ref_parent[0..2]);
 * the harness assumes nothing: every access below is guarded, the contract's requires does the constraining. */
#include "slu_ddefs.h"
#include "vf_prelude.h"
#include "vf_replaced.h"

#define EX_R 3
#define EX_C 3
#define EX_NZ 5

static void ct_reference(const int_t *cs, const int_t *ce, const int_t *ar, int nr, int nc, int *ref)
{
    unsigned char A[EX_R][EX_C], L[EX_C][EX_C];
    int r, c, i, j, k, p;

    for (r = 0; r < EX_R; r++)
        for (c = 0; c < EX_C; c++) A[r][c] = 0;
    for (i = 0; i < EX_C; i++)
        for (j = 0; j < EX_C; j++) L[i][j] = 0;
    /* 1. pattern of A (explicit zeros count, values are never looked at) */
    for (c = 0; c < EX_C; c++)
        for (p = 0; p < EX_NZ; p++)
            if (c < nc && cs[c] <= p && p < ce[c] && 0 <= ar[p] && ar[p] < nr && ar[p] < EX_R)
                A[ar[p]][c] = 1;
    /* 2. pattern of A'A without the diagonal */
    for (i = 0; i < EX_C; i++)
        for (j = 0; j < EX_C; j++)
            for (r = 0; r < EX_R; r++)
                if (i != j && A[r][i] && A[r][j]) L[i][j] = 1;
    /* 3. symbolic Cholesky: eliminating vertex k makes its higher-numbered neighbours a clique */
    for (k = 0; k < EX_C; k++)
        for (i = k + 1; i < EX_C; i++)
            for (j = k + 1; j < EX_C; j++)
                if (i != j && L[i][k] && L[j][k]) L[i][j] = 1;
    /* 4. parent = first off-diagonal nonzero below the diagonal in column j of the filled factor */
    for (j = 0; j < EX_C; j++) {
        ref[j] = nc;
        for (k = EX_C - 1; k > j; k--)
            if (k < nc && L[k][j]) ref[j] = k;
    }
}

void h_sp_coletree_exact(void)
{
    int_t acolst[EX_C], acolend[EX_C], arow[EX_NZ];   /* uninitialised: any contents */
    int parent[EX_C];
    int nr, nc;
    int ref[EX_C];
#ifdef CT_NC
    nc = CT_NC;
#endif
#ifdef CT_NR
    nr = CT_NR;
#endif
    ct_reference(acolst, acolend, arow, nr, nc, ref);
    g_p0 = ref[0]; g_p1 = ref[1]; g_p2 = ref[2];
    sp_coletree(acolst, acolend, arow, nr, nc, parent);
}
