#include "slu_ddefs.h"
#include "vf_prelude.h"
#include "vf_replaced.h"
void h_int32Calloc(void)
{
    int n;
    int32Calloc(n);
}
