#include "slu_ddefs.h"
#include "vf_prelude.h"
#include "vf_replaced.h"
/* all argument objects are created by the contract's preconditions (__CPROVER_is_fresh) */
void h_dSetRWork(void)
{
    int m, panel_size; double *dworkptr, **dense, **tempv;
    dSetRWork(m, panel_size, dworkptr, dense, tempv);
}
