#include "slu_ddefs.h"
#include "vf_prelude.h"
#include "vf_replaced.h"
void h_dLUWorkFree(void)
{
    int *iwork; double *dwork; GlobalLU_t *Glu;
    dLUWorkFree(iwork, dwork, Glu);
}
