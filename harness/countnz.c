#include "slu_ddefs.h"
#include "vf_prelude.h"
#include "vf_replaced.h"
/* all argument objects are created by the contract's preconditions (__CPROVER_is_fresh);
 * xprune is an arbitrary pointer value: it is only used under DEBUGlevel >= 1 */
void h_countnz(void)
{
    int n; int_t *xprune, *nnzL, *nnzU; GlobalLU_t *Glu;
    countnz(n, xprune, nnzL, nnzU, Glu);
}
