#include "slu_ddefs.h"
#include "vf_prelude.h"
#include "vf_replaced.h"

/* Units dgsrfs_refine_N / _T / _C: the solve domain of dgsrfs with ONE transpose mode each. The mode is a CONSTANT here
 * (mirrors the requires clause `trans == DR_FIX_TRANS` of the contract): a requires clause alone does not make the symbolic
 * executor drop the branches of the other modes (measured). Likewise the ghost flag g_p1 (zero mode) is a constant in the
 * variants DR_V_NOZERO (g_p1 == 0) / DR_V_ZERO (g_p1 == 1), mirrored by a requires clause guarded by the same define.
 * All argument objects are created by the contract's preconditions (__CPROVER_is_fresh). */
static void h_common(void)
{
    trans_t trans; SuperMatrix *A, *L, *U, *B, *X; int *perm_c, *perm_r; char *equed;
    double *R, *C, *ferr, *berr; SuperLUStat_t *stat; int *info;
#ifdef DR_FIX_TRANS
    trans = DR_FIX_TRANS;
#endif
#if defined(DR_V_NOZERO)
    g_p1 = 0;
#elif defined(DR_V_ZERO)
    g_p1 = 1;
#endif
    dgsrfs(trans, A, L, U, perm_c, perm_r, equed, R, C, B, X, ferr, berr, stat, info);
}
void h_dgsrfs_refine_N(void) { h_common(); }
void h_dgsrfs_refine_T(void) { h_common(); }
void h_dgsrfs_refine_C(void) { h_common(); }
void h_dgsrfs_zero_N(void) { h_common(); }
void h_dgsrfs_zero_T(void) { h_common(); }
void h_dgsrfs_zero_C(void) { h_common(); }
