#include "slu_ddefs.h"
#include "vf_prelude.h"
#include "vf_replaced.h"
/* all argument objects are created by the contract's preconditions (__CPROVER_is_fresh) */
void h_dgscon(void)
{
    char *norm; SuperMatrix *L, *U; double anorm; double *rcond; SuperLUStat_t *stat; int *info;
    dgscon(norm, L, U, anorm, rcond, stat, info);
}
