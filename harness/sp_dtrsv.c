#include "slu_ddefs.h"
#include "vf_prelude.h"
#include "vf_replaced.h"
/* ASSUMED models of the two allocators of SRC/dmemory.c (same statement as a private @@external contract; written as
 * loop-free bodies because under `@@instrument legacy` a block that a REPLACED contract creates with __CPROVER_is_fresh
 * is not in the frame of the enforced function - measured, see contracts/dgstrf.spec):
 *   doubleCalloc(n): a new ledger block of exactly n doubles, every one 0.0 (n <= NCAP in this unit), or no return (the library ABORTs);
 *                    (malloc + assumed zero contents: the legacy instrumentation tracks malloc'ed blocks, not calloc'ed ones)
 *   doubleMalloc(n): the same with ARBITRARY contents (only reached by the seeded mutant calloc_to_malloc). */
double *doubleCalloc(size_t n)
{
    double *p = (double *)malloc(n * sizeof(double));
    if (!p) vf_abort("doubleCalloc");
    __CPROVER_assume(__CPROVER_forall { int qz; (0 <= qz && qz < NCAP) ==> ((size_t)qz < n ==> p[qz] == 0.0) });
    g_live++;
    return p;
}

double *doubleMalloc(size_t n)
{
    double *p = (double *)malloc(n * sizeof(double));
    if (!p) vf_abort("doubleMalloc");
    g_live++;
    return p;
}

#if defined(SV_V_LN) || defined(SV_V_UN) || defined(SV_V_LT) || defined(SV_V_UT)
/* The four solve variants: the argument objects are the TYPED, pairwise distinct, uninitialised (= nondeterministic) objects
 * below - exactly the objects the contract's FRESH clauses describe (in these variants the contract text says rw_ok for
 * them, macro SV_OBJ).  TOOL REASON (measured): __CPROVER_is_fresh creates untyped byte arrays; every dereference of a
 * pointer loaded from such a block (L->Store->sup_to_col[k] ...) and every quantifier instance over it costs ~100 k clauses
 * (10 M clauses / 260 s per variant against 1 M / seconds).  No assumption is made here: nothing is initialised except the
 * pointer fields, and x is a block of 0..NCAP doubles (the contract requires L->nrow of them). */
void h_sp_dtrsv(void)
{
    char uplo, trans, diag;
    SuperMatrix L, U;
    SCformat Ls;
    NCformat Us;
    int sup_to_col[NCAP + 1];
    int_t rowind_colptr[NCAP + 1], nzval_colptr[NCAP + 1], rowind[LSUBCAP], ucolptr[NCAP + 1], urowind[UNZCAP];
    double lnzval[LNZCAP], unzval[UNZCAP];
    SuperLUStat_t stat;
    flops_t ops[NPHASES];
    int info;
    size_t xn;   /* uninitialised = nondeterministic (an extra nondet_*() function symbol changes goto-instrument's processing order and the loop-contract pass then misses the inlined strncmp loops: measured) */
    if (xn > NCAP) xn = NCAP;
    double xo[xn];                /* a typed block of xn (0..NCAP) doubles; a call here (malloc) would change the processing order, see above */
    double *x = xo;
    Ls.sup_to_col = sup_to_col; Ls.rowind_colptr = rowind_colptr; Ls.nzval_colptr = nzval_colptr; Ls.rowind = rowind; Ls.nzval = lnzval;
    Us.colptr = ucolptr; Us.rowind = urowind; Us.nzval = unzval;
    L.Store = &Ls; U.Store = &Us; stat.ops = ops;
    sp_dtrsv(&uplo, &trans, &diag, &L, &U, x, &stat, &info);
}
#else
/* all argument objects are created by the contract's preconditions (__CPROVER_is_fresh) */
void h_sp_dtrsv(void)
{
    char *uplo, *trans, *diag;
    SuperMatrix *L, *U;
    double *x;
    SuperLUStat_t *stat;
    int *info;
    sp_dtrsv(uplo, trans, diag, L, U, x, stat, info);
}
#endif
