#include "slu_ddefs.h"
#include "vf_prelude.h"
#include "vf_replaced.h"
/* all argument objects are created by the contract's preconditions (__CPROVER_is_fresh) */
void h_sp_dtrsv(void)
{
    char *uplo, *trans, *diag;
    SuperMatrix *L, *U;
    double *x;
    SuperLUStat_t *stat;
    int *info;
    sp_dtrsv(uplo, trans, diag, L, U, x, stat, info);
}
