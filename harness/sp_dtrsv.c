#include "slu_ddefs.h"
#include "vf_prelude.h"
#include "vf_replaced.h"
/* ASSUMED models of the two allocators of SRC/dmemory.c (same statement as a private @@external contract; written as
 * loop-free bodies because under `@@instrument legacy` a block that a REPLACED contract creates with __CPROVER_is_fresh
 * is not in the frame of the enforced function - measured, see contracts/dgstrf.spec):
 *   doubleCalloc(n): a new ledger block of exactly n doubles, every one 0.0 (calloc), or no return (the library ABORTs);
 *   doubleMalloc(n): the same with ARBITRARY contents (only reached by the seeded mutant calloc_to_malloc). */
double *doubleCalloc(size_t n)
{
    double *p = (double *)calloc(n, sizeof(double));
    if (!p) vf_abort("doubleCalloc");
    g_live++;
    return p;
}

double *doubleMalloc(size_t n)
{
    double *p = (double *)malloc(n * sizeof(double));
    if (!p) vf_abort("doubleMalloc");
    g_live++;
    return p;
}

/* all argument objects are created by the contract's preconditions (__CPROVER_is_fresh) */
void h_sp_dtrsv(void)
{
    char *uplo, *trans, *diag;
    SuperMatrix *L, *U;
    double *x;
    SuperLUStat_t *stat;
    int *info;
    sp_dtrsv(uplo, trans, diag, L, U, x, stat, info);
}
