#include "slu_ddefs.h"
#include "vf_prelude.h"
#include "vf_replaced.h"
void dSetupSpace(void *, int_t, GlobalLU_t *);
void h_dSetupSpace(void)
{
    void *work; int_t lwork; GlobalLU_t *Glu;
    dSetupSpace(work, lwork, Glu);
}
