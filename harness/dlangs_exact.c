#include "slu_ddefs.h"
#include "vf_prelude.h"
#include "vf_replaced.h"
/* all argument objects are created by the contract's preconditions (__CPROVER_is_fresh) */
extern double dlangs(char *, SuperMatrix *);
void h_dlangs_exact(void)
{
    char *norm;
    SuperMatrix *A;
    double r = dlangs(norm, A);
    (void)r;
}
