#include "slu_ddefs.h"
#include "vf_prelude.h"
#include "vf_replaced.h"

#ifdef VF_REPLACE_ALLOC
/* Allocator model of this unit (hook provided by vf_support.c): every block has EXACTLY the requested size (out-of-bounds
 * accesses stay visible). Performance hint only: the first two blocks are created as arrays of double, the third as an
 * array of int (that is how dgsrfs uses work / rwork / iwork); CBMC's memory model is byte-accurate whatever the declared
 * element type, so the hint cannot hide or create a behaviour - but an untyped byte array turns every double store into
 * an 8-way byte update of a symbolic-size array, which is intractable (DESIGN.md 2). */
void *vf_malloc(size_t n)
{
    static int vf_k;
    void *p;
    int k = vf_k < 3 ? vf_k++ : 3;
    if (k <= 1 && n % sizeof(double) == 0) {
        size_t cnt = n / sizeof(double);
        p = __CPROVER_allocate(sizeof(double) * cnt, 0);
    } else if (k == 2 && n % sizeof(int) == 0) {
        size_t cnt = n / sizeof(int);
        p = __CPROVER_allocate(sizeof(int) * cnt, 0);
    } else
        p = malloc(n);
    if (p) g_live++;
    return p;
}
void vf_free(void *p)
{
    if (p) g_live--;
    free(p);
}
#endif

/* all argument objects are created by the contract's preconditions (__CPROVER_is_fresh) */
void h_dgsrfs(void)
{
    trans_t trans; SuperMatrix *A, *L, *U, *B, *X; int *perm_c, *perm_r; char *equed;
    double *R, *C, *ferr, *berr; SuperLUStat_t *stat; int *info;
#ifdef DR_FIX_TRANS
    trans = DR_FIX_TRANS;   /* variant: one transpose mode (mirrors the requires clause guarded by the same define) */
#endif
    dgsrfs(trans, A, L, U, perm_c, perm_r, equed, R, C, B, X, ferr, berr, stat, info);
}
