#include "slu_ddefs.h"
#include "vf_prelude.h"
#include "vf_replaced.h"


/* all argument objects are created by the contract's preconditions (__CPROVER_is_fresh) */
void h_dgsrfs(void)
{
    trans_t trans; SuperMatrix *A, *L, *U, *B, *X; int *perm_c, *perm_r; char *equed;
    double *R, *C, *ferr, *berr; SuperLUStat_t *stat; int *info;
#ifdef DR_FIX_TRANS
    trans = DR_FIX_TRANS;   /* variant: one transpose mode (mirrors the requires clause guarded by the same define) */
#endif
    dgsrfs(trans, A, L, U, perm_c, perm_r, equed, R, C, B, X, ferr, berr, stat, info);
}
