/* harness + TRUSTED stdio model for the coordinate-file readers (dreadMM, dreadtriple).
 *
 * The "file" is a ghost object *vf_F created by the contract's preconditions (is_fresh => arbitrary
 * contents, constrained only by the well-formedness predicate written in the contract's requires).
 * The stdio stubs below hand its records to the reader one by one.  They are the trusted base of
 * these units: text -> number conversion (what the real sscanf/fscanf do) is NOT verified. */
#include <stdarg.h>
#include "slu_ddefs.h"
#include "vf_prelude.h"
#include "vf_replaced.h"
#include "vf_mmfile.h"

struct vf_mmfile *vf_F;
int nondet_int(void);

/* ---- loop-free string helpers (every literal the reader uses is shorter than 16 chars) ---- */
#define VF_P(k) d[k] = s[k]; if (!s[k]) return;
static void vf_put(char *d, const char *s)
{
    VF_P(0) VF_P(1) VF_P(2) VF_P(3) VF_P(4) VF_P(5) VF_P(6) VF_P(7)
    VF_P(8) VF_P(9) VF_P(10) VF_P(11) VF_P(12) VF_P(13) VF_P(14)
    d[15] = 0;
}
#define VF_S(k) if (a[k] != b[k]) return (unsigned char)a[k] < (unsigned char)b[k] ? -1 : 1; if (a[k] == 0) return 0;
int strcmp(const char *a, const char *b)
{
    VF_S(0) VF_S(1) VF_S(2) VF_S(3) VF_S(4) VF_S(5) VF_S(6) VF_S(7)
    VF_S(8) VF_S(9) VF_S(10) VF_S(11) VF_S(12) VF_S(13) VF_S(14) VF_S(15)
    return nondet_int();               /* longer than any token of the model: any answer */
}
int tolower(int c) { return (c >= 'A' && c <= 'Z') ? c + ('a' - 'A') : c; }

/* a line of arbitrary text: the caller's buffer is left as it is (arbitrary), only NUL-terminated */
char *fgets(char *s, int size, FILE *stream)
{
    (void)stream;
    s[size - 1] = 0;
    return s;
}

/* sscanf: the three uses in dreadMM are told apart by their format string */
int sscanf(const char *str, const char *fmt, ...)
{
    va_list ap;
    (void)str;
    va_start(ap, fmt);
    if (fmt[1] == 's' && fmt[2] == ' ') {          /* "%s %s %s %s %s": the banner line */
        char *banner = va_arg(ap, char *), *mtx = va_arg(ap, char *), *crd = va_arg(ap, char *);
        char *arith = va_arg(ap, char *), *sym = va_arg(ap, char *);
        vf_put(banner, "%%matrixmarket");
        vf_put(mtx, "matrix");
        vf_put(crd, "coordinate");
        vf_put(arith, "real");
        if (vf_F->sym) vf_put(sym, "symmetric"); else vf_put(sym, "general");
        va_end(ap);
        return 5;
    }
    if (fmt[1] == 's') {                            /* "%s": first token of the next line */
        char *tok = va_arg(ap, char *);
        if (vf_F->comments > 0) { tok[0] = '%'; vf_F->comments--; }
        else tok[0] = '1';                          /* the size line starts with a number */
        tok[1] = 0;
        va_end(ap);
        return 1;
    }
    {                                               /* "%d%d%d": the size line */
        int *m = va_arg(ap, int *), *n = va_arg(ap, int *);
        int_t *nonz = va_arg(ap, int_t *);
        *m = vf_F->m; *n = vf_F->n; *nonz = vf_F->nonz;
        va_end(ap);
        return 3;
    }
}

/* "%d%d%lf\n": the next coordinate record of the file */
static int vf_next_record(int *r, int *c, double *v)
{
    if (vf_F->pos < 0 || vf_F->pos >= VF_FZ) return -1;   /* EOF */
    *r = vf_F->row[vf_F->pos];
    *c = vf_F->col[vf_F->pos];
    *v = vf_F->val[vf_F->pos];
    vf_F->pos++;
    return 3;
}
int fscanf(FILE *f, const char *fmt, ...)
{
    va_list ap;
    (void)f; (void)fmt;
    va_start(ap, fmt);
    int *r = va_arg(ap, int *), *c = va_arg(ap, int *);
    double *v = va_arg(ap, double *);
    va_end(ap);
    return vf_next_record(r, c, v);
}
int fprintf(FILE *f, const char *fmt, ...) { (void)f; (void)fmt; return nondet_int(); }

#ifdef VF_UNIT_DREADMM
void h_dreadMM(void)
{
    FILE *fp; int *m, *n; int_t *nonz; double **nzval; int_t **rowind, **colptr;
    dreadMM(fp, m, n, nonz, nzval, rowind, colptr);
}
void h_dreadMM_bounded(void) { h_dreadMM(); }
#endif
