#include "slu_ddefs.h"
#include "vf_prelude.h"
#include "vf_replaced.h"
void h_dgsisx(void)
{
    superlu_options_t *options; SuperMatrix *A, *L, *U, *B, *X; int *perm_c, *perm_r, *etree; char *equed;
    double *R, *C, *recip_pivot_growth, *rcond; void *work; int_t lwork;
    GlobalLU_t *Glu; mem_usage_t *mem_usage; SuperLUStat_t *stat; int_t *info;
    dgsisx(options, A, perm_c, perm_r, etree, equed, R, C, L, U, work, lwork, B, X,
           recip_pivot_growth, rcond, Glu, mem_usage, stat, info);
}
