#include "slu_ddefs.h"
#include "vf_prelude.h"
#include "vf_replaced.h"
/* all argument objects are created by the contract's preconditions (__CPROVER_is_fresh);
 * the variants pass the constant order TP_N (the contract is unchanged) */
void h_TreePostorder(void)
{
    int n;
    int *parent, *post;
#ifdef TP_N
    n = TP_N;
#endif
    post = TreePostorder(n, parent);
}
