#include "slu_ddefs.h"
#include "vf_prelude.h"
#include "vf_replaced.h"
/* all argument objects are created by the contract's preconditions (__CPROVER_is_fresh);
 * rowcnd, colcnd, amax are arbitrary doubles (NaN and infinities included) */
void h_dlaqgs(void)
{
    SuperMatrix *A;
    double *r, *c;
    double rowcnd, colcnd, amax;
    char *equed;
    dlaqgs(A, r, c, rowcnd, colcnd, amax, equed);
}
