#include "slu_ddefs.h"
#include "vf_prelude.h"
#include "vf_replaced.h"

/* Unit dgsrfs_screen: domain = calls that are rejected by the screening or take the quick return (n == 0 or nrhs == 0).
 * The first allocation of dgsrfs on every other path is doubleMalloc(2*n). The model below PROVES that it is never
 * reached on this domain (an assumption behind a proved assertion restricts nothing) and lets the symbolic executor drop
 * the unreachable rest of the function (refinement / estimator loops). SRC/memory.c and SRC/dmemory.c are not compiled in. */
double *doubleMalloc(size_t n)
{
    (void)n;
    __CPROVER_assert(0, "dgsrfs allocates no workspace when the call is rejected or takes the quick return");
    __CPROVER_assume(0);
    return (double *)0;
}

int *int32Malloc(int n)
{
    (void)n;
    __CPROVER_assert(0, "dgsrfs allocates no integer workspace when the call is rejected or takes the quick return");
    __CPROVER_assume(0);
    return (int *)0;
}

/* all argument objects are created by the contract's preconditions (__CPROVER_is_fresh) */
void h_dgsrfs_screen(void)
{
    trans_t trans; SuperMatrix *A, *L, *U, *B, *X; int *perm_c, *perm_r; char *equed;
    double *R, *C, *ferr, *berr; SuperLUStat_t *stat; int *info;
    dgsrfs(trans, A, L, U, perm_c, perm_r, equed, R, C, B, X, ferr, berr, stat, info);
}
