#include "slu_ddefs.h"
#include "vf_prelude.h"
#include "vf_replaced.h"
void h_dmach(void)
{
    char *cmach;
    dmach(cmach);
}
