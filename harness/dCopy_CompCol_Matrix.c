#include "slu_ddefs.h"
#include "vf_prelude.h"
#include "vf_replaced.h"
/* all argument objects are created by the contract's preconditions (__CPROVER_is_fresh) */
void h_dCopy_CompCol_Matrix(void)
{
    SuperMatrix *A, *B;
    dCopy_CompCol_Matrix(A, B);
}
