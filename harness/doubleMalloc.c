#include "slu_ddefs.h"
#include "vf_prelude.h"
#include "vf_replaced.h"
void h_doubleMalloc(void)
{
    size_t n;
    doubleMalloc(n);
}
