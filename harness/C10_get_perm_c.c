#include "slu_ddefs.h"
#include "vf_prelude.h"
#include "vf_replaced.h"
/* all argument objects are created by the contract's preconditions (__CPROVER_is_fresh) */
void h_C10_get_perm_c(void)
{
    int ispec;
    SuperMatrix *A;
    int *perm_c;
    get_perm_c(ispec, A, perm_c);
}
