#include "slu_ddefs.h"
#include "vf_prelude.h"
#include "vf_replaced.h"
void h_dgssv(void)
{
    superlu_options_t *options; SuperMatrix *A, *L, *U, *B; int *perm_c, *perm_r;
    SuperLUStat_t *stat; int_t *info;
    dgssv(options, A, perm_c, perm_r, L, U, B, stat, info);
}
