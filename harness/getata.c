#include "slu_ddefs.h"
#include "vf_prelude.h"
#include "vf_replaced.h"
/* all argument objects are created by the contract's preconditions (__CPROVER_is_fresh) */
void getata(const int m, const int n, const int_t nz, const int_t *colptr, const int_t *rowind,
            int_t *atanz, int_t **ata_colptr, int_t **ata_rowind);
void h_getata(void)
{
    int m, n;
    int_t nz;
    int_t *colptr, *rowind, *atanz, **ata_colptr, **ata_rowind;
    getata(m, n, nz, colptr, rowind, atanz, ata_colptr, ata_rowind);
}
