#include "slu_ddefs.h"
#include "vf_prelude.h"
#include "vf_replaced.h"
/* all argument objects are created by the contract's preconditions (__CPROVER_is_fresh); the three arrays are
 * arbitrary pointer values: the routine must not dereference them */
void h_dCreate_CompCol_Matrix(void)
{
    SuperMatrix *A; int m, n; int_t nnz; double *nzval; int_t *rowind, *colptr;
    Stype_t stype; Dtype_t dtype; Mtype_t mtype;
    dCreate_CompCol_Matrix(A, m, n, nnz, nzval, rowind, colptr, stype, dtype, mtype);
}
