/* vf_cex_support.c - input log for the generated counterexample harness (see contracts/vf_cex.h).
 * Compiled (a) by goto-cc together with vf_support.c, (b) natively with -DVF_NATIVE together with the
 * recorded log (vf_replay_data.c) and WITHOUT vf_support.c (ghost state is defined here for that case). */
#include "vf_prelude.h"
#include "vf_cex.h"

#ifndef VF_NATIVE
void vf_input(void *dst, size_t n)
{
    /* the input log is the sequence of values assigned to vf_in_byte in the verifier's trace, in execution order */
    unsigned char *d = (unsigned char *)dst;
    for (size_t i = 0; i < n; i++) {
        unsigned char vf_in_byte = nondet_uchar();
        d[i] = vf_in_byte;
    }
}

int vf_fresh(void **pp, size_t n)
{
    /* same meaning as __CPROVER_is_fresh in a requires clause: a new object of n bytes, arbitrary contents */
    void *p = malloc(n);
    __CPROVER_assume(p != 0);
    vf_input(p, n);
    *pp = p;
    return 1;
}
#else
#include <string.h>
extern const unsigned char vf_replay_data[];
extern const unsigned vf_replay_len;
static unsigned vf_pos;
int vf_failed, vf_verbose;

int g_i, g_j, g_k, g_l;
int g_a, g_b, g_c, g_d;
int g_p0, g_p1, g_p2, g_p3;
long g_live;
unsigned g_seq;
VF_TRACE_LIST(VF_TR_DEF)

static struct { char *p; size_t n; } vf_blocks[4096];
static int vf_nblocks;

void vf_input(void *dst, size_t n)
{
    unsigned char *d = (unsigned char *)dst;
    for (size_t i = 0; i < n; i++) {
        /* bytes the verifier's trace did not fix are irrelevant to the counterexample: zero */
        d[i] = vf_pos < vf_replay_len ? vf_replay_data[vf_pos] : 0;
        vf_pos++;
    }
}

int vf_fresh(void **pp, size_t n)
{
    char *p = malloc(n ? n : 1);
    if (!p) { printf("VF_REPLAY out of memory\n"); exit(2); }
    vf_input(p, n);
    if (vf_nblocks < 4096) { vf_blocks[vf_nblocks].p = p; vf_blocks[vf_nblocks].n = n; vf_nblocks++; }
    *pp = p;
    return 1;
}

static int vf_block_of(const void *q)
{
    for (int i = 0; i < vf_nblocks; i++)
        if ((const char *)q >= vf_blocks[i].p && (const char *)q <= vf_blocks[i].p + vf_blocks[i].n) return i;
    return -1;
}

int vf_same_object(const void *p, const void *q)
{
    int a = vf_block_of(p), b = vf_block_of(q);
    return a >= 0 && a == b;
}

long vf_pointer_offset(const void *p)
{
    int a = vf_block_of(p);
    return a < 0 ? -1 : (long)((const char *)p - vf_blocks[a].p);
}

/* allocation hooks (USER_MALLOC / USER_FREE): the real allocator plus the ledger */
void *vf_malloc(size_t n)
{
    void *p = malloc(n);
    if (p) g_live++;
    return p;
}

void vf_free(void *p)
{
    if (p) g_live--;
    free(p);
}

void vf_abort(char *msg)
{
    printf("VF_REPLAY library ABORT: %s\n", msg ? msg : "");
    exit(3);
}
#endif
