/* vf_cex_support.c - input log for the generated counterexample harness (see contracts/vf_cex.h).
 * Compiled (a) by goto-cc together with vf_support.c, (b) natively with -DVF_NATIVE together with the
 * recorded log (vf_replay_data.c) and WITHOUT vf_support.c (ghost state is defined here for that case). */
#include "vf_prelude.h"
#include "vf_cex.h"

#ifndef VF_NATIVE
void vf_input(void *dst, size_t n)
{
    /* the input log is read off the verifier's trace structurally: the k-th executed call of vf_input, the j-th
     * iteration of this loop (every iteration shows as a loop-head step) and the value assigned to vf_in_byte.
     * --slice-formula keeps exactly the bytes that matter; the others are don't-cares and replay as 0. */
    unsigned char *d = (unsigned char *)dst;
    for (size_t i = 0; i < n; i++) {
        unsigned char vf_in_byte = nondet_uchar();
        d[i] = vf_in_byte;
    }
}

int vf_fresh(void **pp, size_t n)
{
    /* same meaning as __CPROVER_is_fresh in a requires clause: a new object of n bytes, arbitrary contents */
    void *p = malloc(n);
    __CPROVER_assume(p != 0);
    __CPROVER_assume(n < 65536);
    vf_input(p, n);
    *pp = p;
    return 1;
}
#else
#include <string.h>
extern const unsigned long vf_replay_recs[];   /* (call ordinal << 24 | offset << 8 | byte), any order */
static unsigned vf_call_no;
extern const unsigned vf_replay_len;
int vf_failed, vf_verbose;
static struct { char *p; size_t n; } vf_blocks[4096];
static int vf_nblocks;

int g_i, g_j, g_k, g_l;
int g_a, g_b, g_c, g_d;
int g_p0, g_p1, g_p2, g_p3;
long g_live;
unsigned g_seq;
VF_TRACE_LIST(VF_TR_DEF)

void vf_input(void *dst, size_t n)
{
    unsigned slot = vf_call_no++;
    /* bytes the verifier's trace did not fix are irrelevant to the counterexample: zero */
    unsigned char *d = (unsigned char *)dst;
    for (size_t i = 0; i < n; i++) d[i] = 0;
    for (unsigned k = 0; k < vf_replay_len; k++) {
        unsigned long r = vf_replay_recs[k];
        if ((r >> 24) == slot && ((r >> 8) & 0xffff) < n) d[(r >> 8) & 0xffff] = (unsigned char)(r & 0xff);
    }
}

int vf_fresh(void **pp, size_t n)
{
    char *p = malloc(n ? n : 1);
    if (!p) { printf("VF_REPLAY out of memory\n"); exit(2); }
    vf_input(p, n);
    if (vf_nblocks < 4096) { vf_blocks[vf_nblocks].p = p; vf_blocks[vf_nblocks].n = n; vf_nblocks++; }
    *pp = p;
    return 1;
}

static int vf_block_of(const void *q)
{
    for (int i = 0; i < vf_nblocks; i++)
        if ((const char *)q >= vf_blocks[i].p && (const char *)q <= vf_blocks[i].p + vf_blocks[i].n) return i;
    return -1;
}

int vf_same_object(const void *p, const void *q)
{
    int a = vf_block_of(p), b = vf_block_of(q);
    return a >= 0 && a == b;
}

long vf_pointer_offset(const void *p)
{
    int a = vf_block_of(p);
    return a < 0 ? -1 : (long)((const char *)p - vf_blocks[a].p);
}

/* allocation hooks (USER_MALLOC / USER_FREE): the real allocator plus the ledger */
void *vf_malloc(size_t n)
{
    void *p = malloc(n);
    if (p) g_live++;
    return p;
}

void vf_free(void *p)
{
    if (p) g_live--;
    free(p);
}

void vf_abort(char *msg)
{
    printf("VF_REPLAY library ABORT: %s\n", msg ? msg : "");
    exit(3);
}
#endif
