#include "slu_ddefs.h"
#include "vf_prelude.h"
#include "vf_replaced.h"
/* all argument objects are created by the contract's preconditions (__CPROVER_is_fresh) */
void h_dcopy_to_ucol_mv(void)
{
    int jcol, nseg; int *segrep, *repfnz, *perm_r; double *dense; GlobalLU_t *Glu;
    dcopy_to_ucol(jcol, nseg, segrep, repfnz, perm_r, dense, Glu);
}
