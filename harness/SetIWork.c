#include "slu_ddefs.h"
#include "vf_prelude.h"
#include "vf_replaced.h"
/* all argument objects are created by the contract's preconditions (__CPROVER_is_fresh) */
void h_SetIWork(void)
{
    int m, n, panel_size; int *iworkptr; int **segrep, **parent, **repfnz, **panel_lsub, **marker; int_t **xplore, **xprune;
    SetIWork(m, n, panel_size, iworkptr, segrep, parent, xplore, repfnz, panel_lsub, xprune, marker);
}
