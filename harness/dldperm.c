#include "slu_ddefs.h"
#include "vf_prelude.h"
#include "vf_replaced.h"
/* ghost cells written only by the ASSUMED contract of mc64ad_ (values of dw at the ghost position g_j) */
double vf_mc64_u, vf_mc64_v;
/* all argument objects are created by the contract's preconditions (__CPROVER_is_fresh) */
void h_dldperm(void)
{
    int job, n; int_t nnz;
    int_t *colptr, *adjncy; double *nzval; int *perm; double *u, *v;
    dldperm(job, n, nnz, colptr, adjncy, nzval, perm, u, v);
}
