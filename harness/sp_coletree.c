#include "slu_ddefs.h"
#include "vf_prelude.h"
#include "vf_replaced.h"
/* all argument objects are created by the contract's preconditions (__CPROVER_is_fresh) */
void h_sp_coletree(void)
{
    int_t *acolst, *acolend, *arow;
    int nr, nc;
    int *parent;
#ifdef CT_NC
    nc = CT_NC;
#endif
#ifdef CT_NR
    nr = CT_NR;
#endif
    sp_coletree(acolst, acolend, arow, nr, nc, parent);
}
