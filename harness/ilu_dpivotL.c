#include "slu_ddefs.h"
#include "vf_prelude.h"
#include "vf_replaced.h"
/* all argument objects are created by the contract's preconditions (__CPROVER_is_fresh) */
void h_ilu_dpivotL(void)
{
    int jcol, diagind;
#if defined(IPV_U1A) || defined(IPV_U1B)
    /* variants U1A/U1B: the contract requires u == 1.0; 1.0 has exactly one bit pattern, so passing the literal is the same
     * input set - it only lets the tool fold the constant operand of thresh = u * pivmax before bit-blasting */
    double u = 1.0;
#else
    double u;
#endif
    double fill_tol, drop_sum;
    /* the contract requires milu == SILU (one enum value): passing the constant is the same input set and lets
     * symbolic execution drop the modified-ILU arms of the four switch statements */
    milu_t milu = SILU;
    int *usepr, *perm_r, *swap, *iswap, *marker, *pivrow;
    GlobalLU_t *Glu;
    SuperLUStat_t *stat;
    ilu_dpivotL(jcol, u, usepr, perm_r, diagind, swap, iswap, marker, pivrow, fill_tol, milu, drop_sum, Glu, stat);
}
