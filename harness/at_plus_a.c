#include "slu_ddefs.h"
#include "vf_prelude.h"
#include "vf_replaced.h"
/* all argument objects are created by the contract's preconditions (__CPROVER_is_fresh) */
void at_plus_a(const int n, const int_t nz, const int_t *colptr, const int_t *rowind,
               int_t *bnz, int_t **b_colptr, int_t **b_rowind);
void h_at_plus_a(void)
{
    int n;
    int_t nz;
    int_t *colptr, *rowind, *bnz, **b_colptr, **b_rowind;
    at_plus_a(n, nz, colptr, rowind, bnz, b_colptr, b_rowind);
}
