#include "slu_ddefs.h"
#include "vf_prelude.h"
#include "vf_replaced.h"
/* all argument objects are created by the contract's preconditions (__CPROVER_is_fresh) */
void h_Destroy_SuperMatrix_Store(void)
{
    SuperMatrix *A;
    Destroy_SuperMatrix_Store(A);
}
