#include "slu_ddefs.h"
#include "vf_prelude.h"
#include "vf_replaced.h"

/* ---------------------------------------------------------------------------------------------------------------
 * ASSUMED protocol models of the five ALLOCATING callees of dgsitrf (dLUMemInit, SetIWork, dSetRWork, int32Malloc,
 * intMalloc).  They are the same kind of statement as the private @@external contracts in contracts/dgsitrf.spec
 * (requires = __CPROVER_assert, ensures = nondeterministic result + __CPROVER_assume, ghost updates), written as
 * loop-free bodies for one TOOL REASON (measured): under `@@instrument legacy` an object that a replaced contract
 * creates with __CPROVER_is_fresh in its ensures clause is not added to the frame of the enforced function, so every
 * later write to it (by dgsitrf itself: supno[0], xusub[icol+1], iperm_c[..], dense[..]; or by another replaced
 * contract: relax_end, xlusup[jcol+1]) is reported as "not assignable".  A body that calls malloc is inlined by
 * --enforce-contract and its blocks are tracked.  Nothing here restricts the inputs of dgsitrf.
 * --------------------------------------------------------------------------------------------------------------- */
int nondet_int(void);
GlobalLU_t nondet_GlobalLU(void);
int *nondet_intp(void);
double *nondet_doublep(void);

/* int32Malloc / intMalloc: one new block of exactly n elements on the ledger; never NULL (the library ABORTs) */
int *int32Malloc(int n)
{
    __CPROVER_assert(1 <= n && n <= NCAP && 0 <= g_live && g_live < 1000000, "int32Malloc requires");
    int *p = (int *)malloc((size_t)n * sizeof(int));
    g_live++;
    g_seq++;
    return p;
}

int_t *intMalloc(int_t n)
{
    __CPROVER_assert(1 <= n && n <= NCAP && 0 <= g_live && g_live < 1000000, "intMalloc requires");
    int_t *p = (int_t *)malloc((size_t)n * sizeof(int_t));
    g_live++;
    g_seq++;
    return p;
}

/* dLUMemInit: returns 0 or a value > n (size query lwork == -1: always > n).  Records its return value and the number of
 * live blocks it hands over (DI_HANDED) in the ghost record; on success Glu carries five pointer arrays of n+1 entries
 * (capacity NCAP+1), the capacities of the four growable arrays, MemModel (SYSTEM iff lwork == 0), num_expansions == 1.
 * The five pointer arrays are created on the failing return too (an allocation under a condition leaves the symbolic
 * executor without value sets: measured); that dgsitrf does not touch them there is decided by its call-count clause. */
int_t dLUMemInit(fact_t fact, void *work, int_t lwork, int m, int n, int_t annz, int panel_size, double fill_ratio,
                 SuperMatrix *L, SuperMatrix *U, GlobalLU_t *Glu, int **iwork, double **dwork)
{
    __CPROVER_assert(1 <= n && n <= m && m <= NCAP && 1 <= panel_size && panel_size <= PSCAP && 0 <= g_live && g_live < 900000,
                     "dLUMemInit requires");
    int_t ret = nondet_int();
    int handed = nondet_int();
    *Glu = nondet_GlobalLU();
    Glu->xsup = (int *)malloc((NCAP + 1) * sizeof(int));
    Glu->supno = (int *)malloc((NCAP + 1) * sizeof(int));
    Glu->xlsub = (int_t *)malloc((NCAP + 1) * sizeof(int_t));
    Glu->xlusup = (int_t *)malloc((NCAP + 1) * sizeof(int_t));
    Glu->xusub = (int_t *)malloc((NCAP + 1) * sizeof(int_t));
    /* dgsitrf WRITES into the value and subscript arrays of L (fill-in position of an empty column): they are real blocks of the
     * capacity bound DI_LUCAP / DI_LCAP entries; the capacities Glu->nzlumax / Glu->nzlmax range up to these bounds, and the
     * callee contracts never move the two arrays (moves are the subject of dgstrf / dcopy_to_ucol_mv / dLUMemXpand) */
    Glu->lusup = malloc(DI_LUCAP * sizeof(double));
    Glu->lsub = (int_t *)malloc(DI_LCAP * sizeof(int_t));
    *iwork = nondet_intp();
    *dwork = nondet_doublep();
    __CPROVER_assume(ret == 0 || ret > n);
    __CPROVER_assume(lwork != -1 || ret > n);
    __CPROVER_assume(0 <= handed && handed <= 16);
    if (ret == 0) {
        __CPROVER_assume(*iwork != NULL && *dwork != NULL);
        __CPROVER_assume(Glu->n == n && Glu->num_expansions == 1 && (Glu->MemModel == SYSTEM || Glu->MemModel == USER)
                         && (lwork == 0) == (Glu->MemModel == SYSTEM));
        __CPROVER_assume(0 <= Glu->nzlumax && Glu->nzlumax <= DI_LUCAP && 0 <= Glu->nzumax && Glu->nzumax <= DI_BIG
                         && 0 <= Glu->nzlmax && Glu->nzlmax <= DI_LCAP);
        /* handed over on success: the expansion headers, + (library allocation) the two work arrays,
         * + (fresh factorization) five pointer arrays and four growable arrays */
        __CPROVER_assume(handed == 1 + (Glu->MemModel == SYSTEM ? (fact == SamePattern_SameRowPerm ? 2 : 11) : 0));
    }
    g_live += handed;
    g_seq++;
    g_tr_misc3.i[0] = ret;
    g_tr_misc3.i[1] = handed;
    g_tr_misc3.p[0] = *iwork;
    g_tr_misc3.p[1] = *dwork;
    return ret;
}

/* SetIWork: the five slices of iwork are modelled as separate blocks (a pointer defined as `base + offset` by an assumed
 * equality has no value set: measured, no result); xplore / xprune are real library allocations and are on the ledger */
void SetIWork(int m, int n, int panel_size, int *iworkptr, int **segrep, int **parent, int_t **xplore,
              int **repfnz, int **panel_lsub, int_t **xprune, int **marker)
{
    __CPROVER_assert(1 <= n && n <= m && m <= NCAP && 1 <= panel_size && panel_size <= PSCAP && 0 <= g_live && g_live < 900000
                     && iworkptr == DI_IWORK, "SetIWork requires");
    *segrep = (int *)malloc((NCAP + 1) * sizeof(int));
    *parent = (int *)malloc(NCAP * sizeof(int));
    *repfnz = (int *)malloc(PSCAP * NCAP * sizeof(int));
    *panel_lsub = (int *)malloc(PSCAP * NCAP * sizeof(int));
    *marker = (int *)malloc(3 * NCAP * sizeof(int));
    *xplore = (int_t *)malloc(NCAP * sizeof(int_t));
    *xprune = (int_t *)malloc(NCAP * sizeof(int_t));
    g_live += 2;
    g_seq++;
}

/* dSetRWork: dense (panel_size * m) and tempv as separate blocks */
void dSetRWork(int m, int panel_size, double *dworkptr, double **dense, double **tempv)
{
    __CPROVER_assert(1 <= m && m <= NCAP && 1 <= panel_size && panel_size <= PSCAP && dworkptr == DI_DWORK, "dSetRWork requires");
    *dense = (double *)malloc(PSCAP * NCAP * sizeof(double));
    *tempv = (double *)malloc(DI_DWCAP * sizeof(double));
    g_seq++;
}

void h_dgsitrf(void)
{
    superlu_options_t *options; SuperMatrix *A, *L, *U; int relax, panel_size; int *etree, *perm_c, *perm_r;
    void *work; int_t lwork; GlobalLU_t *Glu; SuperLUStat_t *stat; int_t *info;
    dgsitrf(options, A, relax, panel_size, etree, work, lwork, perm_c, perm_r, L, U, Glu, stat, info);
}
