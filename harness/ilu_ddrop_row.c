#include "slu_ddefs.h"
#include "vf_prelude.h"
#include "vf_replaced.h"
/* all argument objects are created by the contract's preconditions (__CPROVER_is_fresh) */
void h_ilu_ddrop_row(void)
{
    superlu_options_t *options; int first, last, quota, lastc; int *nnzLj; double drop_tol; double *fill_tol, *dwork, *dwork2;
    GlobalLU_t *Glu;
    ilu_ddrop_row(options, first, last, drop_tol, quota, nnzLj, fill_tol, Glu, dwork, dwork2, lastc);
}
