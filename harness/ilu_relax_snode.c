#include "slu_ddefs.h"
#include "vf_prelude.h"
#include "vf_replaced.h"
/* all argument objects are created by the contract's preconditions (__CPROVER_is_fresh) */
void h_ilu_relax_snode(void)
{
    int n, relax_columns;
    int *et, *descendants, *relax_end, *relax_fsupc;
    ilu_relax_snode(n, et, relax_columns, descendants, relax_end, relax_fsupc);
}
