#include "slu_ddefs.h"
#include "vf_prelude.h"
#include "vf_replaced.h"
/* all argument objects are created by the contract's preconditions (__CPROVER_is_fresh).
 * HR_N (set by the variants n1..n<NCAP>) fixes the matrix order to a constant: the block offsets n+1, 2n+2 inside iwork and the
 * sizes of the two heap blocks are then constants; the variants together cover 1 <= n <= NCAP. */
void h_ilu_heap_relax_snode(void)
{
    int n, relax_columns;
    int *et, *descendants, *relax_end, *relax_fsupc;
#ifdef HR_N
    n = HR_N;
#endif
    ilu_heap_relax_snode(n, et, relax_columns, descendants, relax_end, relax_fsupc);
}
