/* harness for the header part of dreadrb (SRC/dreadrb.c); compiled with -Dstatic= (ReadVector / FormFullA are file-static).
 * stdio, the number conversions and the data-block readers are body-less: their contracts are the private @@external
 * sections of contracts/dreadrb_header.spec (ghost header *vf_H, contracts/vf_hbtext.h). */
#include "slu_ddefs.h"
#include "vf_prelude.h"
#include "vf_replaced.h"
struct vf_hbhead *vf_H;
struct vf_hbtext *vf_T;
/* all argument objects (and the ghost header) are created by the contract's preconditions */
void h_dreadrb_header(void)
{
    int *nrow, *ncol; int_t *nonz; double **nzval; int_t **rowind, **colptr;
    dreadrb(nrow, ncol, nonz, nzval, rowind, colptr);
}
