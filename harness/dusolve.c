#include "slu_ddefs.h"
#include "vf_prelude.h"
#include "vf_replaced.h"
void dusolve(int ldm, int ncol, double *M, double *rhs);
/* all argument objects are created by the contract's preconditions (__CPROVER_is_fresh);
 * scalars are unconstrained (nondeterministic) */
void h_dusolve(void)
{
    int ldm, ncol;
    double *M, *rhs;
    dusolve(ldm, ncol, M, rhs);
}
