#include "slu_ddefs.h"
#include "vf_prelude.h"
#include "vf_replaced.h"
/* all argument objects are created by the contract's preconditions (__CPROVER_is_fresh) */
void h_ilu_dsnode_dfs(void)
{
    int jcol, kcol; int_t *asub, *xa_begin, *xa_end; int *marker; GlobalLU_t *Glu;
    ilu_dsnode_dfs(jcol, kcol, asub, xa_begin, xa_end, marker, Glu);
}
