#include "slu_ddefs.h"
#include "vf_prelude.h"
#include "vf_replaced.h"
/* all argument objects are created by the contract's preconditions (__CPROVER_is_fresh) */
void h_dgsequ(void)
{
    SuperMatrix *A;
    double *r, *c, *rowcnd, *colcnd, *amax;
    int *info;
    dgsequ(A, r, c, rowcnd, colcnd, amax, info);
}
