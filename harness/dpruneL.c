#include "slu_ddefs.h"
#include "vf_prelude.h"
#include "vf_replaced.h"
/* all argument objects are created by the contract's preconditions (__CPROVER_is_fresh) */
void h_dpruneL(void)
{
    int jcol, pivrow, nseg; int *perm_r, *segrep, *repfnz; int_t *xprune; GlobalLU_t *Glu;
    dpruneL(jcol, perm_r, pivrow, nseg, segrep, repfnz, xprune, Glu);
}
