#include "slu_ddefs.h"
#include "vf_prelude.h"
#include "vf_replaced.h"
/* all argument objects are created by the contract's preconditions (__CPROVER_is_fresh) */
void h_dpivotL(void)
{
    int jcol;
    double u;
    int *usepr, *perm_r, *iperm_r, *iperm_c, *pivrow;
    GlobalLU_t *Glu;
    SuperLUStat_t *stat;
    dpivotL(jcol, u, usepr, perm_r, iperm_r, iperm_c, pivrow, Glu, stat);
}
