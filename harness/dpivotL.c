#include "slu_ddefs.h"
#include "vf_prelude.h"
#include "vf_replaced.h"
/* all argument objects are created by the contract's preconditions (__CPROVER_is_fresh) */
void h_dpivotL(void)
{
    int jcol;
#if defined(PLV_U1A) || defined(PLV_U1B)
    /* variants PLV_U1A/B: the contract requires u == 1.0; 1.0 has exactly one bit pattern, so passing the literal is the same
     * input set - it only lets the tool fold the constant operand of thresh = u * pivmax before bit-blasting */
    double u = 1.0;
#else
    double u;
#endif
    int *usepr, *perm_r, *iperm_r, *iperm_c, *pivrow;
    GlobalLU_t *Glu;
    SuperLUStat_t *stat;
    dpivotL(jcol, u, usepr, perm_r, iperm_r, iperm_c, pivrow, Glu, stat);
}
