#include "slu_ddefs.h"
#include "vf_prelude.h"
#include "vf_replaced.h"
/* all argument objects are created by the contract's preconditions (__CPROVER_is_fresh) */
void h_dgstrs(void)
{
    trans_t trans; SuperMatrix *L, *U, *B; int *perm_c, *perm_r; SuperLUStat_t *stat; int *info;
    dgstrs(trans, L, U, perm_c, perm_r, B, stat, info);
}
