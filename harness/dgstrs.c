#include "slu_ddefs.h"
#include "vf_prelude.h"
#include "vf_replaced.h"
/* ASSUMED models of the two allocators of SRC/dmemory.c (loop-free bodies, same statement as a private contract):
 *   doubleCalloc(n): a new ledger block of exactly n doubles, every one 0.0 (n <= NCAP * NRHSCAP in this unit), or no return
 *                    (the library ABORTs when malloc fails);   doubleMalloc(n): the same with arbitrary contents.
 * The blocks are TYPED (malloc(n * sizeof(double))): see the tool note below. */
double *doubleCalloc(size_t n)
{
#ifdef DG_V_SCREEN
    /* variant screen (illegal arguments only): PROVES that no allocation is attempted after a screening failure; the
     * symbolic executor then drops the unreachable rest of dgstrs (an assumption behind a proved assertion restricts nothing) */
    __CPROVER_assert(0, "dgstrs allocates nothing when the screening fails");
    __CPROVER_assume(0);
#endif
    if (n > NCAP * NRHSCAP) vf_abort("doubleCalloc");   /* beyond the capacity of this unit: taken to fail (never on the proved domain) */
    double *p = (double *)malloc(n * sizeof(double));
    if (!p) vf_abort("doubleCalloc");
    __CPROVER_assume(__CPROVER_forall { int qz; (0 <= qz && qz < NCAP * NRHSCAP) ==> ((size_t)qz < n ==> p[qz] == 0.0) });
    g_live++;
    return p;
}

double *doubleMalloc(size_t n)
{
    if (n > NCAP) vf_abort("doubleMalloc");
    double *p = (double *)malloc(n * sizeof(double));
    if (!p) vf_abort("doubleMalloc");
    g_live++;
    return p;
}

/* The argument objects are the TYPED, pairwise distinct, uninitialised (= nondeterministic) objects below - exactly the
 * objects the contract's FRESH clauses describe (in the variants the contract text says rw_ok for them, macro DG_OBJ).
 * TOOL REASON (measured in unit sp_dtrsv): __CPROVER_is_fresh creates untyped byte arrays; every dereference of a pointer
 * loaded from such a block and every quantifier instance over it costs ~100 k clauses (the screen variant of this unit
 * with is_fresh objects: 121 M clauses).  No assumption is made here: nothing is initialised except the pointer fields. */
void h_dgstrs(void)
{
    /* the variant's requires fixes trans; the SAME value is set here as a constant because a requires clause does not make the
     * symbolic executor drop the other branch (measured: 121 M clauses with a symbolic trans) */
#if defined(DG_V_NOTRANS)
    trans_t trans = NOTRANS;
#elif defined(DG_V_TRANS)
    trans_t trans = TRANS;
#elif defined(DG_V_CONJ)
    trans_t trans = CONJ;
#else
    trans_t trans;
#endif
    SuperMatrix L, U, B;
    SCformat Ls;
    NCformat Us;
    DNformat Bs;
    int sup_to_col[NCAP + 1];
    int_t rowind_colptr[NCAP + 1], nzval_colptr[NCAP + 1], rowind[LSUBCAP], ucolptr[NCAP + 1], urowind[UNZCAP];
    double lnzval[LNZCAP], unzval[UNZCAP], bval[LDBCAP * NRHSCAP];
    int perm_c[NCAP], perm_r[NCAP];
    SuperLUStat_t stat;
    flops_t ops[NPHASES];
    int info;
    Ls.sup_to_col = sup_to_col; Ls.rowind_colptr = rowind_colptr; Ls.nzval_colptr = nzval_colptr; Ls.rowind = rowind; Ls.nzval = lnzval;
    Us.colptr = ucolptr; Us.rowind = urowind; Us.nzval = unzval;
    Bs.nzval = bval;
    L.Store = &Ls; U.Store = &Us; B.Store = &Bs; stat.ops = ops;
#ifdef DG_BOX_N
    /* bounded stand-in (unit dgstrs_notrans_b): the box fixes n and nrhs; the SAME values as constants so that the loops over
     * rows and right-hand sides have concrete bounds for the symbolic executor */
    L.nrow = DG_BOX_N; B.ncol = 2;
#endif
    dgstrs(trans, &L, &U, perm_c, perm_r, &B, &stat, &info);
}

/* entry point of unit dgstrs_notrans (same harness, variant NOTRANS) */
void h_dgstrs_notrans(void) { h_dgstrs(); }

/* entry point of unit dgstrs_notrans_b (bounded stand-in, same harness) */
void h_dgstrs_notrans_b(void) { h_dgstrs(); }
