#include "slu_ddefs.h"
#include "vf_prelude.h"
#include "vf_replaced.h"
/* all argument objects are created by the contract's preconditions (__CPROVER_is_fresh / pointer_in_range) */
void copy_mem_int(int_t, void *, void *);
void h_copy_mem_int(void)
{
    int_t howmany; void *old, *new;
    copy_mem_int(howmany, old, new);
}
