#include "slu_ddefs.h"
#include "vf_prelude.h"
#include "vf_replaced.h"
void dmatvec(int ldm, int nrow, int ncol, double *M, double *vec, double *Mxvec);
/* all argument objects are created by the contract's preconditions (__CPROVER_is_fresh);
 * scalars are unconstrained (nondeterministic) */
void h_dmatvec(void)
{
    int ldm, nrow;
    /* bounded unit: the variant's requires fixes ncol; the SAME value is set here as a constant because a requires clause
     * does not make the symbolic executor drop the other loop iterations */
#ifdef MYB_NCOL
    int ncol = MYB_NCOL;
#else
    int ncol;
#endif
    double *M, *vec, *Mxvec;
    dmatvec(ldm, nrow, ncol, M, vec, Mxvec);
}
