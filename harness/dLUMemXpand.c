#include "slu_ddefs.h"
#include "vf_prelude.h"
#include "vf_replaced.h"
/* all argument objects are created by the contract's preconditions (__CPROVER_is_fresh) */
void h_dLUMemXpand(void)
{
    int jcol; int_t next; MemType mem_type; int_t *maxlen; GlobalLU_t *Glu;
    dLUMemXpand(jcol, next, mem_type, maxlen, Glu);
}
