#include "slu_ddefs.h"
#include "vf_prelude.h"
#include "vf_replaced.h"
void h_int32Malloc(void)
{
    int n;
    int32Malloc(n);
}
