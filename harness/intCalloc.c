#include "slu_ddefs.h"
#include "vf_prelude.h"
#include "vf_replaced.h"
void h_intCalloc(void)
{
    int_t n;
    intCalloc(n);
}
