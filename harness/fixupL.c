#include "slu_ddefs.h"
#include "vf_prelude.h"
#include "vf_replaced.h"
/* all argument objects are created by the contract's preconditions (__CPROVER_is_fresh) */
void h_fixupL(void)
{
    int n; int *perm_r; GlobalLU_t *Glu;
    fixupL(n, perm_r, Glu);
}
