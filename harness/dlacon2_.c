#include "vf_prelude.h"
#include "vf_replaced.h"
/* all argument objects are created by the contract's preconditions (__CPROVER_is_fresh) */
extern int dlacon2_(int *n, double *v, double *x, int *isgn, double *est, int *kase, int isave[3]);
void h_dlacon2_(void)
{
    int *n, *isgn, *kase, *isave;
    double *v, *x, *est;
    dlacon2_(n, v, x, isgn, est, kase, isave);
}
