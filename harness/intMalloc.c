#include "slu_ddefs.h"
#include "vf_prelude.h"
#include "vf_replaced.h"
void h_intMalloc(void)
{
    int n;
    intMalloc(n);
}
