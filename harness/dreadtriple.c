/* harness for dreadtriple; the TRUSTED stdio model (ghost record source *vf_F) is contracts/vf_mmfile_impl.h */
#include "slu_ddefs.h"
#include "vf_prelude.h"
#include "vf_replaced.h"
#include "vf_mmfile_impl.h"

/* all argument objects (and the ghost file) are created by the contract's preconditions */
void h_dreadtriple(void)
{
    int *m, *n; int_t *nonz; double **nzval; int_t **rowind, **colptr;
    dreadtriple(m, n, nonz, nzval, rowind, colptr);
}
