/* harness for the (file-static) dReadValues of SRC/dreadrb.c; compiled with -Dstatic=.
 * The trusted text models (fgets, atof) are body-less: their contracts are the private @@external sections of the spec. */
#include "slu_ddefs.h"
#include "vf_prelude.h"
#include "vf_replaced.h"
struct vf_hbtext *vf_T;
int dReadValues(FILE *fp, int n, double *destination, int perline, int persize);
/* all argument objects (and the ghost block) are created by the contract's preconditions */
void h_dReadValues_rb(void)
{
    FILE *fp; int n, perline, persize; double *destination;
    dReadValues(fp, n, destination, perline, persize);
}
