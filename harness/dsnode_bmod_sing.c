#include "slu_ddefs.h"
#include "vf_prelude.h"
#include "vf_replaced.h"
#ifdef SB_TYPED
/* TOOL REASON (measured in dpanel_bmod / sp_dtrsv): the argument objects are TYPED, pairwise distinct, otherwise uninitialised
 * (= nondeterministic) objects of exactly the sizes the contract's object clauses state (macro SB_OBJ: rw_ok + exact object size +
 * offset 0 instead of __CPROVER_is_fresh, which creates untyped byte arrays). Nothing is initialised except the pointer fields the
 * contract's object clauses speak about. */
void h_dsnode_bmod_sing(void)
{
    int jcol, jsupno, fsupc;
    double dense[MCAP], tempv[MCAP];
    GlobalLU_t Glu;
    SuperLUStat_t stat;
    flops_t ops[NPHASES];
    int_t xlsub[NCAP + 1], xlusup[NCAP + 1], lsub[LCAP];
    double lusup[LUCAP];
    Glu.xlsub = xlsub; Glu.xlusup = xlusup; Glu.lsub = lsub; Glu.lusup = lusup;
    stat.ops = ops;
    dsnode_bmod(jcol, jsupno, fsupc, dense, tempv, &Glu, &stat);
}
#else
/* all argument objects are created by the contract's preconditions (__CPROVER_is_fresh) */
void h_dsnode_bmod_sing(void)
{
    int jcol, jsupno, fsupc;
    double *dense, *tempv;
    GlobalLU_t *Glu;
    SuperLUStat_t *stat;
    dsnode_bmod(jcol, jsupno, fsupc, dense, tempv, Glu, stat);
}
#endif
/* TOOL REASON: goto-instrument refuses `--replace-call-with-contract f` when f is not referenced anywhere in the program, and each
 * variant (USE_VENDOR_BLAS on / off) calls only one pair of the four replaced kernels. This function is NEVER called (the entry point is
 * h_dsnode_bmod_sing); it only keeps the four symbols in the program. */
void vf_dsnode_bmod_sing_keep_symbols(void)
{
    dtrsv_(0, 0, 0, 0, 0, 0, 0, 0);
    dgemv_(0, 0, 0, 0, 0, 0, 0, 0, 0, 0, 0);
    dlsolve(0, 0, 0, 0);
    dmatvec(0, 0, 0, 0, 0, 0);
}
