#include "slu_ddefs.h"
#include "vf_prelude.h"
#include "vf_replaced.h"
/* BOUNDED harness shared by the units dcolumn_dfs_b and ilu_dcolumn_dfs_b.
 *
 * ASSUMED MOVING model of dLUMemXpand(.., LSUB, ..) (system-malloc mode of dexpand: grow by copy, free the old block), a
 * loop-free body that says the same as a private contract would (measured in dsnode_dfs: a replaced contract cannot carry a
 * moving block through the DFCC library):
 *   - its preconditions are ASSERTED at every call site (mem_type == LSUB, *maxlen == Glu->nzlmax, 0 <= next <= *maxlen <= LCAP);
 *   - failure (the new block cannot be had): nothing changes, an arbitrary positive byte count is returned;
 *   - success: a NEW typed block of LCAP subscripts holds the old contents, the OLD block is FREED (a stale base pointer of
 *     the caller is then a dereference of a deallocated object), Glu->lsub points to the new block, *maxlen == Glu->nzlmax is
 *     STRICTLY larger (assumed, as in dsnode_dfs.spec) and <= LCAP (the capacity of the box);
 *   - every call is recorded in the ghost record misc1 (calls, return value, next). */
int_t nondet_int_t(void);
int_t dLUMemXpand(int jcol, int_t next, MemType mem_type, int_t *maxlen, GlobalLU_t *Glu)
{
    (void)jcol;
    __CPROVER_assert(mem_type == LSUB, "dLUMemXpand requires: mem_type == LSUB");
    __CPROVER_assert(*maxlen == Glu->nzlmax, "dLUMemXpand requires: *maxlen == Glu->nzlmax");
    __CPROVER_assert(0 <= next && next <= *maxlen && *maxlen <= LCAP, "dLUMemXpand requires: 0 <= next <= *maxlen <= LCAP");
    int_t ret = nondet_int_t(), len = nondet_int_t();
    int_t *nw = (int_t *)malloc(LCAP * sizeof(int_t));   /* may fail (cbmc: malloc may return NULL) */
    g_tr_misc1.calls++;
    g_tr_misc1.i[1] = next;
    if (!nw || *maxlen >= LCAP) {
        if (nw) free(nw);
        __CPROVER_assume(ret > 0);
        g_tr_misc1.i[0] = ret;
        return ret;
    }
    __CPROVER_assume(len > *maxlen && len <= LCAP);
    int_t *old = Glu->lsub;
    nw[0] = old[0]; nw[1] = old[1]; nw[2] = old[2]; nw[3] = old[3];
#if LCAP > 4
    nw[4] = old[4];
#endif
#if LCAP > 5
    nw[5] = old[5];
#endif
#if LCAP > 6
    nw[6] = old[6];
#endif
#if LCAP > 7
    nw[7] = old[7];
#endif
#if LCAP > 8 || LCAP < 4
#error "harness/dcolumn_dfs_b.c: 4 <= LCAP <= 8"
#endif
    free(old);
    Glu->lsub = nw;
    Glu->nzlmax = len;
    *maxlen = len;
    g_tr_misc1.i[0] = 0;
    return 0;
}

/* The argument objects are TYPED, pairwise distinct objects with arbitrary contents (the contract says rw_ok for them, macro
 * CD_OBJ; tool reason measured in sp_dtrsv / dgstrs_notrans_b: is_fresh objects are untyped byte arrays, 5-8x larger formula).
 * Nothing is assumed here: only the pointer fields of Glu are set; lsub lives on the heap because the model above frees it.
 * The variant fixes jcol (CD_JCOL): the SAME value is set here as a constant so that the symbolic executor sees it. */
static void vf_cd_objects(GlobalLU_t *Glu, int *xsup, int *supno, int_t *xlsub)
{
    Glu->xsup = xsup; Glu->supno = supno; Glu->xlsub = xlsub;
    Glu->lsub = (int_t *)malloc(LCAP * sizeof(int_t));
}

#ifndef VF_ILU
void h_dcolumn_dfs_b(void)
{
    int m, jcol, nseg;
    int perm_r[MCAP], lsub_col[MCAP], segrep[MCAP], repfnz[MCAP], marker[3 * MCAP], parent[MCAP];
    int_t xprune[NCAP], xplore[MCAP];
    int xsup[NCAP + 1], supno[NCAP + 1]; int_t xlsub[NCAP + 1];
    GlobalLU_t Glu;
    vf_cd_objects(&Glu, xsup, supno, xlsub);
    if (!Glu.lsub) return;
#ifdef CD_JCOL
    jcol = CD_JCOL;
#endif
#ifdef CD_M
    m = CD_M;
#endif
    dcolumn_dfs(m, jcol, perm_r, &nseg, lsub_col, segrep, repfnz, xprune, marker, parent, xplore, &Glu);
}
#else
void h_ilu_dcolumn_dfs_b(void)
{
    int m, jcol, nseg;
    int perm_r[MCAP], lsub_col[MCAP], segrep[MCAP], repfnz[MCAP], marker[3 * MCAP], parent[MCAP];
    int_t xplore[MCAP];
    int xsup[NCAP + 1], supno[NCAP + 1]; int_t xlsub[NCAP + 1];
    GlobalLU_t Glu;
    vf_cd_objects(&Glu, xsup, supno, xlsub);
    if (!Glu.lsub) return;
#ifdef CD_JCOL
    jcol = CD_JCOL;
#endif
#ifdef CD_M
    m = CD_M;
#endif
    ilu_dcolumn_dfs(m, jcol, perm_r, &nseg, lsub_col, segrep, repfnz, marker, parent, xplore, &Glu);
}
#endif
