#include "slu_ddefs.h"
#include "vf_prelude.h"
#include "vf_replaced.h"
/* all argument objects are created by the contract's preconditions (__CPROVER_is_fresh) */
void h_dpanel_bmod(void)
{
    int m, w, jcol, nseg;
    double *dense, *tempv;
    int *segrep, *repfnz;
    GlobalLU_t *Glu;
    SuperLUStat_t *stat;
    dpanel_bmod(m, w, jcol, nseg, dense, tempv, segrep, repfnz, Glu, stat);
}
