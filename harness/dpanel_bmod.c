#include "slu_ddefs.h"
#include "vf_prelude.h"
#include "vf_replaced.h"
#ifdef PB_TYPED
/* TOOL REASON (measured, same as harness/sp_dtrsv.c): the argument objects are TYPED, pairwise distinct, otherwise
 * uninitialised (= nondeterministic) objects of exactly the sizes the contract's object clauses state (macro PB_OBJ:
 * rw_ok + exact object size + offset 0 instead of __CPROVER_is_fresh, which creates untyped byte arrays).
 * Nothing is initialised except the pointer fields the contract's object clauses speak about. */
void h_dpanel_bmod(void)
{
    int m, w, jcol, nseg;
    double dense[MCAP * WCAP], tempv[PB_TCAP_H];
    int segrep[MCAP], repfnz[MCAP * WCAP];
    GlobalLU_t Glu;
    SuperLUStat_t stat;
    flops_t ops[NPHASES];
    int xsup[NCAP + 1], supno[NCAP + 1];
    int_t xlsub[NCAP + 1], xlusup[NCAP + 1], lsub[LCAP];
    double lusup[LUCAP];
    Glu.xsup = xsup; Glu.supno = supno; Glu.xlsub = xlsub; Glu.xlusup = xlusup; Glu.lsub = lsub; Glu.lusup = lusup;
    stat.ops = ops;
    dpanel_bmod(m, w, jcol, nseg, dense, tempv, segrep, repfnz, &Glu, &stat);
}
#else
/* all argument objects are created by the contract's preconditions (__CPROVER_is_fresh) */
void h_dpanel_bmod(void)
{
    int m, w, jcol, nseg;
    double *dense, *tempv;
    int *segrep, *repfnz;
    GlobalLU_t *Glu;
    SuperLUStat_t *stat;
    dpanel_bmod(m, w, jcol, nseg, dense, tempv, segrep, repfnz, Glu, stat);
}
#endif
