/* vf_cex.h - support for the GENERATED counterexample / replay harness (tools/witness.py).
 *
 * The same generated file h_cex_<unit>.c is used twice:
 *   (1) under CBMC (no VF_NATIVE): every input byte comes from vf_input(), which draws a nondeterministic
 *       byte into its local vf_in_byte; the contract's requires clauses are assumed, the
 *       REAL function body runs (loops unwound, no loop contracts), the ensures clauses are asserted.
 *       A failing assertion gives a trace; the values assigned to vf_in_byte in that trace, in order, ARE the input.
 *   (2) natively (-DVF_NATIVE, gcc + ASan/UBSan, real /repo sources): vf_input() reads the recorded bytes
 *       back in the same order, so the real code is run on exactly the verifier's counterexample. */
#ifndef VF_CEX_H
#define VF_CEX_H
#include <stddef.h>

#ifndef VF_LOGCAP
#define VF_LOGCAP 16384
#endif

#ifndef VF_NATIVE
/* ------------------------------------------------------------------ CBMC side */
unsigned char nondet_uchar(void);
void vf_input(void *dst, size_t n);
int vf_fresh(void **pp, size_t n);
#define VF_ASSUME(c)        __CPROVER_assume(c)
#define VF_CHECK(k, c, txt) __CPROVER_assert((c), "VF_ENS " #k)
#define VF_VALID(p, n)      __CPROVER_rw_ok((p), (n))
#define VF_SAME_OBJECT(p, q) __CPROVER_same_object((p), (q))
#define VF_POINTER_OFFSET(p) __CPROVER_POINTER_OFFSET(p)
#else
/* ------------------------------------------------------------------ native side */
#include <stdio.h>
#include <stdlib.h>
#include <math.h>
void vf_input(void *dst, size_t n);
int vf_fresh(void **pp, size_t n);
int vf_same_object(const void *p, const void *q);
long vf_pointer_offset(const void *p);
extern int vf_failed;
#define VF_ASSUME(c) do { if (!(c)) { printf("VF_REPLAY precondition-not-met: %s\n", #c); exit(2); } } while (0)
#define VF_CHECK(k, c, txt) do { if (!(c)) { printf("VF_REPLAY FAILED ensures#%d: %s\n", (k), (txt)); vf_failed = 1; } else if (vf_verbose) printf("VF_REPLAY ok ensures#%d\n", (k)); } while (0)
extern int vf_verbose;
#define VF_VALID(p, n)       ((p) != 0)
#define VF_SAME_OBJECT(p, q) vf_same_object((p), (q))
#define VF_POINTER_OFFSET(p) vf_pointer_offset(p)
#define __CPROVER_fabs(x)    fabs(x)
#define __CPROVER_fabsf(x)   fabsf(x)
#define __CPROVER_same_object(p, q)  vf_same_object((p), (q))
#define __CPROVER_POINTER_OFFSET(p)  vf_pointer_offset(p)
#define __CPROVER_r_ok(p, n)  ((p) != 0)
#define __CPROVER_w_ok(p, n)  ((p) != 0)
#define __CPROVER_rw_ok(p, n) ((p) != 0)
#endif

#endif
