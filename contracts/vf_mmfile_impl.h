/* vf_mmfile_impl.h - TRUSTED stdio model for the coordinate-file readers (dreadMM, dreadtriple),
 * included by their harnesses only.
 *
 * The "file" is a ghost object *vf_F created by the contract's preconditions (is_fresh => arbitrary
 * contents, constrained only by the well-formedness predicate written in the contract's requires).
 * The fixed-arity model functions below (see vf_mmfile.h for the arity mapping) hand its records to
 * the reader one by one.  They are the trusted base of these units: text -> number conversion (what the
 * real sscanf/fscanf do) is NOT verified.  All of them are loop-free, so DFCC checks every store
 * they make against the write set of the reader's contract / loop contracts. */
#ifndef VF_MMFILE_IMPL_H
#define VF_MMFILE_IMPL_H
#include "vf_mmfile.h"

struct vf_mmfile *vf_F;
int nondet_int(void);

/* ---- loop-free string helpers (every literal the reader uses is shorter than 16 chars) ---- */
#define VF_P(k) d[k] = s[k]; if (!s[k]) return;
static void vf_put(char *d, const char *s)
{
    VF_P(0) VF_P(1) VF_P(2) VF_P(3) VF_P(4) VF_P(5) VF_P(6) VF_P(7)
    VF_P(8) VF_P(9) VF_P(10) VF_P(11) VF_P(12) VF_P(13) VF_P(14)
    d[15] = 0;
}
#define VF_S(k) if (a[k] != b[k]) return (unsigned char)a[k] < (unsigned char)b[k] ? -1 : 1; if (a[k] == 0) return 0;
int vf_strcmp(const char *a, const char *b)
{
    VF_S(0) VF_S(1) VF_S(2) VF_S(3) VF_S(4) VF_S(5) VF_S(6) VF_S(7)
    VF_S(8) VF_S(9) VF_S(10) VF_S(11) VF_S(12) VF_S(13) VF_S(14) VF_S(15)
    return nondet_int();               /* longer than any token of the model: any answer */
}
int vf_tolower(int c) { return (c >= 'A' && c <= 'Z') ? c + ('a' - 'A') : c; }

/* a line of arbitrary text: the caller's buffer is left as it is (arbitrary), only NUL-terminated */
char *vf_fgets(char *s, int size, FILE *stream)
{
    (void)stream;
    s[size - 1] = 0;
    return s;
}

/* "%s %s %s %s %s": the banner line */
int vf_sscanf_7(const char *str, const char *fmt, char *banner, char *mtx, char *crd, char *arith, char *sym)
{
    (void)str; (void)fmt;
    vf_put(banner, "%%matrixmarket");
    vf_put(mtx, "matrix");
    vf_put(crd, "coordinate");
    vf_put(arith, "real");
    if (vf_F->sym) vf_put(sym, "symmetric"); else vf_put(sym, "general");
    return 5;
}
/* "%s": first token of the next line */
int vf_sscanf_3(const char *str, const char *fmt, char *tok)
{
    (void)str; (void)fmt;
    if (vf_F->comments > 0) { tok[0] = '%'; vf_F->comments--; }
    else tok[0] = '1';                          /* the size line starts with a number */
    tok[1] = 0;
    return 1;
}
/* "%d%d%d": the size line */
int vf_sscanf_5(const char *str, const char *fmt, int *m, int *n, int *nonz)
{
    (void)str; (void)fmt;
    *m = vf_F->m; *n = vf_F->n; *nonz = vf_F->nonz;
    return 3;
}
/* "%d%d%lf\n": the next coordinate record of the file */
static int vf_next_record(int *r, int *c, double *v)
{
    if (vf_F->pos < 0 || vf_F->pos >= VF_FZ) return -1;   /* EOF */
    *r = vf_F->row[vf_F->pos];
    *c = vf_F->col[vf_F->pos];
    *v = vf_F->val[vf_F->pos];
    vf_F->pos++;
    return 3;
}
int vf_fscanf_5(FILE *fp, const char *fmt, int *r, int *c, double *v)
{
    (void)fp; (void)fmt;
    return vf_next_record(r, c, v);
}
/* dreadtriple reads stdin: "%d%d" is the size line, "%d%d%lf\n" a record */
int vf_scanf_3(const char *fmt, int *n, int *nonz)
{
    (void)fmt;
    *n = vf_F->n; *nonz = vf_F->nonz;
    return 2;
}
int vf_scanf_4(const char *fmt, int *r, int *c, double *v)
{
    (void)fmt;
    return vf_next_record(r, c, v);
}
int vf_fprintf_0(FILE *f) { (void)f; return nondet_int(); }
#endif
