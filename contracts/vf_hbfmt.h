/* vf_hbfmt.h - TRUSTED model of the two libc number scanners used by the Harwell-Boeing format-descriptor
 * parsers (dParseIntFormat / dParseFloatFormat).  sscanf(s, "%d", p) and atoi(s) are mapped (textual macro, like
 * USER_MALLOC) onto fixed-arity body-less functions that are replaced by the contracts in the unit's spec:
 * the scanner reads s[0..] up to and including the first byte that cannot continue a number, so such a byte
 * must exist inside the object s points into; the value delivered is arbitrary (text -> number is not verified). */
#ifndef VF_HBFMT_H
#define VF_HBFMT_H
#include <stdio.h>
#include <stdlib.h>
#ifndef BUFSZ
#define BUFSZ 100        /* char buf[100] in dreadhb() / dreadrb() */
#endif
int vf_sscanf_d(const char *s, int *p);
int vf_atoi(const char *s);
#define sscanf(s, fmt, p) vf_sscanf_d(s, p)
#define atoi(s) vf_atoi(s)
#define VF_NUMCH(c) (((c) >= '0' && (c) <= '9') || (c) == ' ' || (c) == '+' || (c) == '-' || ((c) >= 9 && (c) <= 13))
/* a byte that ends the number, at or after s and inside s's object, witnessed by a ghost index k (quantifier-free form of "exists") */
#define VF_TERM_AT(s, k) ((k) >= __CPROVER_POINTER_OFFSET(s) && (k) < BUFSZ && !VF_NUMCH((s)[(k) - __CPROVER_POINTER_OFFSET(s)]))
#define VF_NUMTERM(s) (VF_TERM_AT(s, g_b) || VF_TERM_AT(s, g_c))
#endif
