/* vf_hbtext.h - ghost model of the fixed-width TEXT of a Harwell-Boeing / Rutherford-Boeing file, shared by the
 * units that put the FIELD SLICING of the readers under contract (ReadVector, ReadVector_rb, dReadValues,
 * dReadValues_rb, dreadhb_header).  Pulled in with `@@goto_flags -include vf_hbtext.h`; nothing here is compiled
 * into /repo.
 *
 * Text -> number conversion (atoi / atof / sscanf "%d") stays a TRUSTED model: a body-less fixed-arity function whose
 * contract (a private @@external in each unit's spec) delivers the next number of the ghost file.  WHICH characters
 * are handed to the conversion is not trusted: it is the call-site PRECONDITION of that contract (the string must be
 * exactly the next unread field: start offset, NUL terminator right behind the field width), checked at every call.
 *
 * The libc entry points are mapped textually (like USER_MALLOC) onto the model functions; the variadic
 * fscanf/sscanf/printf are mapped by ARITY (DFCC appends a write-set parameter to every function, which collides
 * with va_arg). */
#ifndef VF_HBTEXT_H
#define VF_HBTEXT_H
#include <stdio.h>
#include <stdlib.h>
#ifndef BUFSZ
#define BUFSZ 100        /* char buf[100] in ReadVector / dReadValues / dreadhb / dreadrb */
#endif
#ifndef VF_TZ
#define VF_TZ 6          /* capacity: numbers in one data block of the ghost file */
#endif

/* ---- one data block (pointers, indices or values) written with the edit descriptor (perline I persize) ---- */
struct vf_hbtext {
    int perline, persize; /* numbers per line, characters per number (from the format line) */
    int n;                /* numbers in the block */
    int pos;              /* numbers converted so far == index of the next one */
    int lines;            /* lines read so far */
    int off;              /* offset in the line buffer at which the next unread field begins */
    int len;              /* length of the text of the current line */
    int item[VF_TZ];      /* the numbers, as written (1-based) */
    double val[VF_TZ];
};
extern struct vf_hbtext *vf_T;

/* ---- the header (lines 1-4) of a Harwell-Boeing file ---- */
#define VF_HN 9           /* integer fields of header lines 2 (5 x I14) and 3 (4 x I14) */
struct vf_hbhead {
    /* what the file says (never assigned) */
    int num[VF_HN];       /* TOTCRD PTRCRD INDCRD VALCRD RHSCRD | NROW NCOL NNZERO NELTVL */
    int fmtnum[3], fmtsize[3];   /* (count, width) of PTRFMT INDFMT VALFMT on line 4 */
    char mxtype1;         /* second character of MXTYPE */
    /* the character field read last (fscanf "%<fw>c"): width, offset in its buffer, 1 = not converted yet; length of the title line */
    struct vf_hbcur { int fw, foff, fresh, llen; } cur;
    int nconv;            /* header integers converted so far */
    int nfmt;             /* format descriptors parsed so far */
    int dumped;           /* dDumpLine calls */
    int full_calls, closed;
    /* call records of the data-block readers */
    struct vf_hbrv { int calls; long n0, n1; int pl0, ps0, pl1, ps1; const void *w0, *w1; } rv;
    struct vf_hbrval { int calls; long n; int pl, ps; const void *dst; } rval;
};
extern struct vf_hbhead *vf_H;

#define VF_NARG_(a1, a2, a3, a4, a5, a6, a7, a8, N, ...) N
#define VF_NARG(...) VF_NARG_(__VA_ARGS__, 8, 7, 6, 5, 4, 3, 2, 1, 0)
#define VF_CAT_(a, b) a##b
#define VF_CAT(a, b) VF_CAT_(a, b)

#undef atoi
#undef atof
#undef fgets
int vf_atoi_fld(const char *s);
double vf_atof_fld(const char *s);
char *vf_fgets_line(char *s, int size, FILE *fp);
#define atoi(s) vf_atoi_fld(s)
#define atof(s) vf_atof_fld(s)
#define fgets(s, n, fp) vf_fgets_line(s, n, fp)

#ifdef VF_HB_HEADER
/* header unit only: character fields (fscanf "%Nc"), sscanf(buf, "%d", &v), output and fgetc */
#undef fscanf
#undef sscanf
#undef printf
#undef fputs
#undef fclose
int vf_fscanf_c(FILE *fp, const char *fmt, char *p);
int vf_sscanf_fld(const char *s, const char *fmt, int *p);
int vf_printf_0(void);
int vf_fputs(const char *s, FILE *fp);
int vf_fclose(FILE *fp);
#define fscanf(fp, fmt, p) vf_fscanf_c(fp, fmt, p)
#define sscanf(s, fmt, p)  vf_sscanf_fld(s, fmt, p)
#define printf(...)        vf_printf_0()
#define fputs(s, fp)       vf_fputs(s, fp)
#define fclose(fp)         vf_fclose(fp)
/* width N of a "%Nc" / "%NNc" conversion (the only fscanf formats of the header code) */
/* (written without ?: - ternaries are not allowed in assigns targets) */
#define VF_CW(fmt) (((fmt)[2] == 'c') * ((fmt)[1] - '0') + ((fmt)[2] != 'c') * (((fmt)[1] - '0') * 10 + ((fmt)[2] - '0')))
#endif
#endif
