/* vf_mmfile.h - ghost model of a coordinate (Matrix Market / triplet) text file, shared by the
 * contracts of dreadMM / dreadtriple (which state well-formedness and the result in terms of it)
 * and by the trusted stdio stubs in harness/dreadMM.c (which hand its records to the reader).
 * Pulled in with `@@goto_flags -include vf_mmfile.h`; nothing here is compiled into /repo. */
#ifndef VF_MMFILE_H
#define VF_MMFILE_H
#ifndef VF_FZ
#define VF_FZ 3          /* capacity: records in the file */
#endif
#define VF_XZ (2 * VF_FZ) /* capacity: records after symmetric expansion */
struct vf_mmfile {
    int m, n, nonz;       /* the size line */
    int sym;              /* banner says symmetric (1) / general (0) */
    int comments;         /* number of comment lines between banner and size line */
    int pos;              /* next record to be read */
    int row[VF_FZ], col[VF_FZ]; double val[VF_FZ];   /* the records, 1-based as written in the file */
};
extern struct vf_mmfile *vf_F;
#endif
