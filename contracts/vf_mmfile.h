/* vf_mmfile.h - ghost model of a coordinate (Matrix Market / triplet) text file, shared by the
 * contracts of dreadMM / dreadtriple (which state well-formedness and the result in terms of it)
 * and by the trusted stdio model (contracts/vf_mmfile_impl.h, included by the harnesses).
 * Pulled in with `@@goto_flags -include vf_mmfile.h`; nothing here is compiled into /repo.
 *
 * stdio entry points used by the readers are variadic; DFCC instrumentation appends a write-set
 * parameter to every function, which collides with va_arg.  They are therefore mapped BY ARITY onto
 * fixed-arity model functions vf_<fn>_<number of arguments> (textual macro, like USER_MALLOC). */
#ifndef VF_MMFILE_H
#define VF_MMFILE_H
#include <stdio.h>
#include <stdlib.h>
#include <string.h>
#include <ctype.h>
#ifndef VF_FZ
#define VF_FZ 3          /* capacity: records in the file */
#endif
#define VF_XZ (2 * VF_FZ) /* capacity: records after symmetric expansion */
struct vf_mmfile {
    int m, n, nonz;       /* the size line */
    int sym;              /* banner says symmetric (1) / general (0) */
    int comments;         /* number of comment lines between banner and size line */
    int pos;              /* next record to be read */
    int row[VF_FZ], col[VF_FZ]; double val[VF_FZ];   /* the records, 1-based as written in the file */
};
extern struct vf_mmfile *vf_F;

#define VF_NARG_(a1, a2, a3, a4, a5, a6, a7, a8, N, ...) N
#define VF_NARG(...) VF_NARG_(__VA_ARGS__, 8, 7, 6, 5, 4, 3, 2, 1, 0)
#define VF_CAT_(a, b) a##b
#define VF_CAT(a, b) VF_CAT_(a, b)

#undef fscanf
#undef sscanf
#undef scanf
#undef fprintf
#undef tolower
#define fscanf(...)  VF_CAT(vf_fscanf_, VF_NARG(__VA_ARGS__))(__VA_ARGS__)
#define sscanf(...)  VF_CAT(vf_sscanf_, VF_NARG(__VA_ARGS__))(__VA_ARGS__)
#define scanf(...)   VF_CAT(vf_scanf_, VF_NARG(__VA_ARGS__))(__VA_ARGS__)
#define fprintf(fp, ...) vf_fprintf_0(fp)
#define tolower(c)   vf_tolower(c)
#define strcmp(a, b) vf_strcmp(a, b)
#define fgets(s, n, fp) vf_fgets(s, n, fp)

/* dreadMM */
int vf_sscanf_7(const char *str, const char *fmt, char *banner, char *mtx, char *crd, char *arith, char *sym);
int vf_sscanf_3(const char *str, const char *fmt, char *tok);
int vf_sscanf_5(const char *str, const char *fmt, int *m, int *n, int *nonz);
int vf_fscanf_5(FILE *fp, const char *fmt, int *r, int *c, double *v);
int vf_fscanf_3(FILE *fp, const char *fmt, double *v);
/* dreadtriple */
int vf_scanf_3(const char *fmt, int *n, int *nonz);
int vf_scanf_4(const char *fmt, int *r, int *c, double *v);
int vf_fprintf_0(FILE *fp);
int vf_tolower(int c);
int vf_strcmp(const char *a, const char *b);
char *vf_fgets(char *s, int size, FILE *stream);
#endif
