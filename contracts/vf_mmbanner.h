/* vf_mmbanner.h - ghost TEXT of the Matrix Market banner line (unit dreadMM_banner), on top of contracts/vf_mmfile.h.
 * The other dreadMM units hand the reader fixed lower-case banner tokens whatever the line says; here the line itself is
 * modelled: *vf_B holds the characters of the first line of the file - the five documented tokens in ANY mixture of
 * upper and lower case, separated by single blanks (fixed layout: trusted) - the fgets model copies them into the
 * reader's buffer, and the sscanf("%s %s %s %s %s") model cuts the tokens out of the buffer AS THE READER LEFT IT
 * (i.e. after its own case folding).  Text -> token splitting stays trusted; the case handling is the code's. */
#ifndef VF_MMBANNER_H
#define VF_MMBANNER_H
#include "vf_mmfile.h"
#define VF_BZ 64          /* capacity: characters of the banner line */
struct vf_mmbanner {
    char raw[VF_BZ];      /* the line as written in the file, NUL-terminated */
    int lines;            /* lines handed out by fgets so far */
};
extern struct vf_mmbanner *vf_B;
/* offsets of the five tokens in the fixed layout "%%MatrixMarket matrix coordinate real <symmetry>\n" */
#define VF_B_MTX 15
#define VF_B_CRD 22
#define VF_B_ARI 33
#define VF_B_SYM 38
#if VF_MM_SYM
#define VF_B_LIT "%%matrixmarket matrix coordinate real symmetric\n"
#define VF_B_LEN 48
#else
#define VF_B_LIT "%%matrixmarket matrix coordinate real general\n"
#define VF_B_LEN 46
#endif
#define VF_LOWER(c) (((c) >= 'A' && (c) <= 'Z') ? (c) + ('a' - 'A') : (c))
/* a reader that compares case-insensitively instead of folding the line must still compile under the model */
#undef strcasecmp
int vf_strcasecmp(const char *a, const char *b);
#define strcasecmp(a, b) vf_strcasecmp(a, b)
#endif
