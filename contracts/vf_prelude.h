/* vf_prelude.h - ghost state, predicates and macros shared by all contracts (DESIGN.md 3.2).
 * Included (a) by every harness and (b) by the overlay copy of a source file, directly
 * before the first function that carries a contract.  Nothing here is compiled into /repo. */
#ifndef VF_PRELUDE_H
#define VF_PRELUDE_H
#include <stddef.h>
#include <stdlib.h>

#ifndef NCAP
#define NCAP 8            /* array-capacity bound for quantified input facts */
#endif

/* ---- ghost indices: never assigned by code; "for the entry g_i ..." == forall ------------- */
extern int g_i, g_j, g_k, g_l;

/* ---- ghost allocation ledger (USER_MALLOC/USER_FREE are mapped onto these) ---------------- */
extern long g_live;                 /* library-owned live heap blocks */
void *vf_malloc(size_t n);
void  vf_free(void *p);
void  vf_abort(char *msg);

/* ---- ghost call trace (written only by callee contracts in REPLACE mode) ------------------- */
extern unsigned g_seq;                   /* global sequence counter */
#define VF_TRACE_DECL(fn) extern unsigned g_calls_##fn; extern unsigned g_when_##fn;
#define VF_TRACE_DEF(fn)  unsigned g_calls_##fn; unsigned g_when_##fn;
/* X-macro list of every callee that keeps a ghost call counter */
#define VF_TRACE_LIST(X) \
    X(input_error)
VF_TRACE_LIST(VF_TRACE_DECL)

/* ---- floating point: NaN-aware "bitwise unchanged" (modulo sign of zero / NaN payload) ----- */
#define FEQ(a, b)   (((a) == (b)) || (((a) != (a)) && ((b) != (b))))
#define FABS(x)     __CPROVER_fabs(x)
#define FABSF(x)    __CPROVER_fabsf(x)
#define NOTNAN(x)   ((x) == (x))
#define VF_DBL_MAX  1.7976931348623157e308
#define FINITE(x)   ((x) == (x) && (x) <= VF_DBL_MAX && (x) >= -VF_DBL_MAX)

/* ---- cover goal that must be reachable: written as a must-FAIL assertion (vacuity guard) --- */
#define VF_COVER(cond, name) __CPROVER_assert(!(cond), "VF_COVER " name)

/* ---- pointer helpers ------------------------------------------------------------------------ */
#define SAME(p, q)        __CPROVER_same_object((p), (q))
#define OFF(p)            __CPROVER_POINTER_OFFSET(p)
#define FRESH(p, n)       __CPROVER_is_fresh((p), (n))
#define FRESH_ARR(p, cnt) __CPROVER_is_fresh((p), (cnt) * sizeof(*(p)))

/* whole-object havoc targets for assigns clauses */
#define WHOLE(p)  __CPROVER_object_whole(p)
#define UPTO(p,n) __CPROVER_object_upto((p), (n))
#define FROM(p)   __CPROVER_object_from(p)

/* C99 math used by the library, without the libm call */
#ifdef SUPERLU_VERIF
#define VF_FABS_MACRO 1
#endif

#endif
