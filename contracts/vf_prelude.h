/* vf_prelude.h - ghost state, predicates and macros shared by all contracts (DESIGN.md 3.2).
 * Included (a) by every harness and (b) by the overlay copy of a source file, directly
 * before the first function that carries a contract.  Nothing here is compiled into /repo. */
#ifndef VF_PRELUDE_H
#define VF_PRELUDE_H
#include <stddef.h>
#include <stdlib.h>

#ifndef NCAP
#define NCAP 8            /* array-capacity bound for quantified input facts */
#endif
#ifndef NZCAP
#define NZCAP (2 * NCAP)   /* capacity of subscript / value arrays */
#endif
#ifndef RCAP
#define RCAP 2             /* capacity: number of right-hand sides */
#endif
#ifndef LDCAP
#define LDCAP (NCAP + 1)   /* capacity: leading dimension of dense matrices */
#endif

/* ---- ghost indices: never assigned by code; "for the entry g_i ..." == forall ------------- */
extern int g_i, g_j, g_k, g_l;
/* a second set for driver units (their replaced callees constrain g_i..g_l in their own requires) */
extern int g_a, g_b, g_c, g_d;
/* ghost abbreviations: constrained in requires to equal a (quantified) predicate of the pre-state, so the
 * quantifier is expanded once instead of in every clause that mentions it */
extern int g_p0, g_p1, g_p2, g_p3;
/* a ghost VALUE: "for every double g_v ..." */
extern double g_v;

/* ---- ghost allocation ledger (USER_MALLOC/USER_FREE are mapped onto these) ---------------- */
extern long g_live;                 /* library-owned live heap blocks */
void *vf_malloc(size_t n);
void  vf_free(void *p);
void  vf_abort(char *msg);

/* ---- ghost call trace (written only by callee contracts in REPLACE mode) -------------------
 * ONE object g_tr holds a record per traced callee: DFCC's assigns-clause inclusion check is
 * quadratic in the number of targets, and byte-wise havoc of pointer arrays explodes (both measured),
 * so each traced callee has ONE small record object g_tr_<fn> (plus the shared counter g_seq). */
struct vf_tr { unsigned calls, when; long i[6]; const void *p[9]; };
#define VF_TRACE_LIST(X) \
    X(input_error) X(get_perm_c) X(sp_preorder) X(dgstrf) X(dgstrs) X(dgsequ) X(dlaqgs) X(dgscon) X(dgsrfs) \
    X(dPivotGrowth) X(dlangs) X(dQuerySpace) X(sp_dtrsv) X(sp_dgemv) X(dgsitrf) X(dldperm) X(dlacon2_) \
    X(dCreate_CompCol_Matrix) X(dCreate_Dense_Matrix) X(Destroy_CompCol_Permuted) X(Destroy_SuperMatrix_Store) \
    X(Destroy_SuperNode_Matrix) X(Destroy_CompCol_Matrix) X(mc64ad_) X(genmmd_) X(COLAMD_MAIN) X(dgssv) X(StatInit) X(StatFree) \
    X(set_default_options) X(dtrsv_) X(dgemv_) X(dtrsm_) X(dgemm_) X(dlsolve) X(dusolve) X(dmatvec) X(misc1) X(misc2) X(misc3)
#define VF_TR_DECL(fn) extern struct vf_tr g_tr_##fn;
#define VF_TR_DEF(fn)  struct vf_tr g_tr_##fn;
extern unsigned g_seq;
VF_TRACE_LIST(VF_TR_DECL)
/* in a REPLACE-mode contract:  __CPROVER_assigns(VF_TRACE_ASSIGNS(fn))  __CPROVER_ensures(VF_TRACE_ENSURES(fn)) */
#define VF_TRACE_ASSIGNS(fn) g_seq, g_tr_##fn
#define VF_TRACE_ENSURES(fn) (g_tr_##fn.calls == __CPROVER_old(g_tr_##fn.calls) + 1 && g_seq == __CPROVER_old(g_seq) + 1 && g_tr_##fn.when == g_seq)
#define TRI(fn, k) (g_tr_##fn.i[k])     /* k-th recorded integer argument of the last call */
#define TRP(fn, k) (g_tr_##fn.p[k])     /* k-th recorded pointer argument of the last call */
/* in the caller: one assigns target for all traces, and call-count / order predicates */
#define VF_CALLED(fn, k)   (g_tr_##fn.calls == __CPROVER_old(g_tr_##fn.calls) + (k))
#define VF_NOT_CALLED(fn)  (g_tr_##fn.calls == __CPROVER_old(g_tr_##fn.calls))
#define VF_BEFORE(f, g)    (g_tr_##f.when < g_tr_##g.when)

/* ---- floating point: NaN-aware "bitwise unchanged" (modulo sign of zero / NaN payload) ----- */
#define FEQ(a, b)   (((a) == (b)) || (((a) != (a)) && ((b) != (b))))
#define FABS(x)     __CPROVER_fabs(x)
#define FABSF(x)    __CPROVER_fabsf(x)
#define NOTNAN(x)   ((x) == (x))
#define VF_DBL_MAX  1.7976931348623157e308
#define FINITE(x)   ((x) == (x) && (x) <= VF_DBL_MAX && (x) >= -VF_DBL_MAX)

/* ---- cover goal that must be reachable: written as a must-FAIL assertion (vacuity guard) --- */
#define VF_COVER(cond, name) __CPROVER_assert(!(cond), "VF_COVER " name)

/* ---- pointer helpers ------------------------------------------------------------------------ */
#define SAME(p, q)        __CPROVER_same_object((p), (q))
/* signed: __CPROVER_POINTER_OFFSET is unsigned in CBMC 6.11, so differences of offsets would wrap and inequalities over them would be weaker than they read */
#define OFF(p)            ((long)__CPROVER_POINTER_OFFSET(p))
#define FRESH(p, n)       __CPROVER_is_fresh((p), (n))
#define FRESH_ARR(p, cnt) __CPROVER_is_fresh((p), (cnt) * sizeof(*(p)))

/* whole-object havoc targets for assigns clauses */
#define WHOLE(p)  __CPROVER_object_whole(p)
#define UPTO(p,n) __CPROVER_object_upto((p), (n))
#define FROM(p)   __CPROVER_object_from(p)

/* ---- SuperMatrix store views and shape predicates -------------------------------------------- */
#define ST_NC(A)  ((NCformat *)(A)->Store)
#define ST_NR(A)  ((NRformat *)(A)->Store)
#define ST_DN(A)  ((DNformat *)(A)->Store)
#define ST_SC(A)  ((SCformat *)(A)->Store)
#define ST_NCP(A) ((NCPformat *)(A)->Store)
#ifndef PHCAP
#define PHCAP 32          /* capacity of stat->panel_histo (the library allocates panel_size+1) */
#endif
#define FRESH_STAT(stat) (FRESH((stat), sizeof(SuperLUStat_t)) && FRESH((stat)->utime, NPHASES * sizeof(double)) \
        && FRESH((stat)->ops, NPHASES * sizeof(flops_t)) && FRESH((stat)->panel_histo, PHCAP * sizeof(int)))
#define ASSIGNS_STAT(stat) (stat)->TinyPivots, (stat)->RefineSteps, (stat)->expansions, __CPROVER_object_upto((stat)->utime, NPHASES * sizeof(double)), __CPROVER_object_upto((stat)->ops, NPHASES * sizeof(flops_t)), \
        __CPROVER_object_upto((stat)->panel_histo, PHCAP * sizeof(int))
/* number of heap blocks owned by a factor pair (L,U) produced with lwork == 0:
 * L->Store, U->Store, xsup, supno, lsub, xlsub, lusup, xlusup, ucol, usub, xusub */
#define VF_LU_BLOCKS 11

/* C99 math used by the library, without the libm call */
#ifdef SUPERLU_VERIF
#define VF_FABS_MACRO 1
#endif

#endif
