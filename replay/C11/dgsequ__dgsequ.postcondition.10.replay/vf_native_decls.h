/* prototypes of trusted externals used by the contract */
int input_error(char *srname, int *info);
