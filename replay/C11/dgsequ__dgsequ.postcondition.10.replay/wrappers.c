#include "vf_prelude.h"
#include "slu_ddefs.h"
#include "vf_native_decls.h"
int __real_input_error(char * srname, int * info);
int __wrap_input_error(char * srname, int * info)
{
    int vf_r = __real_input_error(srname, info);
    g_tr_input_error.calls++; g_seq++; g_tr_input_error.when = g_seq;
    return vf_r;
}
